/*
 * fcshim - LD_PRELOAD call-history recorder / fault injector for the fclones binary (engine E1).
 *
 * Active only in a process whose /proc/self/exe is named "fclones" (children such as transform
 * programs are passed through). Every intercepted libc call that refers to a path (or to a file
 * descriptor opened on a path) below one of the scenario roots, and every CLOCK_REALTIME read,
 * becomes a numbered EVENT if its class is selected.
 *
 *   FCSHIM_LOG      file the event log is appended to (one line per event, tab separated)
 *   FCSHIM_ROOT     ':'-separated absolute path prefixes that define the scenario
 *   FCSHIM_CLASSES  subset of "mrc": m = mutating calls, r = read-side calls, c = clock reads
 *   FCSHIM_MODE     record (default) | fail | kill | pause
 *   FCSHIM_AT       event number k the mode applies to;  FCSHIM_ERRNO errno for fail
 *   FCSHIM_AT2 / FCSHIM_ERRNO2   optional second failing event
 *   FCSHIM_EMULATE_CLONE=1       emulate ioctl(FICLONE) by copying (file systems without reflink)
 *
 *   FCSHIM_TFAIL=<tag>:<j>:<errno>[:persist]   multi-threaded runs, where global numbers mean nothing: the j-th
 *                   mutating event whose path or path2 contains <tag> fails with errno; with "persist" every later
 *                   mutating event of the same call name fails too (a full disk stays full)
 *   FCSHIM_THOLD=<tag>:<j>[:<quiet_ms>[:<max_ms>]]   the thread that COMPLETED the j-th mutating event containing <tag>
 *                   is suspended until the other threads have logged something and then nothing for quiet_ms (default 120; at most max_ms,
 *                   default 4000): the other workers run to completion while this one sits between two of its steps
 *
 * fail : event k returns failure with errno, the real call is not made.
 * kill : the process SIGKILLs itself immediately before executing event k.
 * pause: the process SIGSTOPs itself immediately before executing event k (the orchestrator
 *        mutates the tree and sends SIGCONT).
 *
 * Log line: k <TAB> class <TAB> tid <TAB> call <TAB> path <TAB> path2 <TAB> info <TAB> ret <TAB> errno
 * (paths percent-encoded for bytes <= 0x20, '%', >= 0x7f).
 */
#define _GNU_SOURCE
#include <dirent.h>
#include <dlfcn.h>
#include <errno.h>
#include <fcntl.h>
#include <limits.h>
#include <pthread.h>
#include <signal.h>
#include <stdarg.h>
#include <stdio.h>
#include <stdlib.h>
#include <string.h>
#include <sys/ioctl.h>
#include <sys/resource.h>
#include <sys/stat.h>
#include <sys/syscall.h>
#include <sys/types.h>
#include <time.h>
#include <unistd.h>

#ifndef FICLONE
#define FICLONE _IOW(0x94, 9, int)
#endif
#ifndef FS_IOC_FIEMAP
#define FS_IOC_FIEMAP _IOWR('f', 11, char[32])
#endif

#define MAXFD 8192
#define MAXROOTS 8

static int active = 0;
static int initialised = 0;
static int log_fd = -1;
static char *roots[MAXROOTS];
static int nroots = 0;
static int cls_m = 0, cls_r = 0, cls_c = 0, cls_p = 0;
static enum { M_RECORD, M_FAIL, M_KILL, M_PAUSE } mode = M_RECORD;
static long at1 = -1, at2 = -1;
static int errno1 = EIO, errno2 = EIO;
static int emulate_clone = 0;
static long counter = 0;
static pthread_mutex_t mu = PTHREAD_MUTEX_INITIALIZER;

static char *fd_path[MAXFD];
static int fd_write[MAXFD];

/* tagged fault / hold (see FCSHIM_TFAIL, FCSHIM_THOLD) */
static char tf_tag[256], th_tag[256], tf_call[32];
static long tf_j = -1, th_j = -1, tf_count = 0, th_count = 0, th_quiet_ms = 120, th_max_ms = 4000;
static int tf_errno = 0, tf_persist = 0, tf_fired = 0;
static long long last_event_ns = 0;
static long m_events = 0;
static char lock_unsupported[256];   /* FCSHIM_LOCK_UNSUPPORTED, see fcntl() */
static int hold_started = 0;
static __thread const char *cur_call = NULL, *cur_p1 = NULL, *cur_p2 = NULL;
#define SET_CUR(c, a, b) do { cur_call = (c); cur_p1 = (a); cur_p2 = (b); } while (0)

static long long now_ns(void) {
    struct timespec ts;
    syscall(SYS_clock_gettime, CLOCK_MONOTONIC, &ts);
    return (long long)ts.tv_sec * 1000000000LL + ts.tv_nsec;
}

static int has_tag(const char *tag, const char *a, const char *b) {
    return tag[0] && ((a && strstr(a, tag)) || (b && strstr(b, tag)));
}

static void init(void);

#define REAL(ret, name, ...)                                   \
    static ret (*real_##name)(__VA_ARGS__) = NULL;             \
    if (!real_##name) real_##name = dlsym(RTLD_NEXT, #name);

static long raw_write(int fd, const void *buf, size_t n) { return syscall(SYS_write, fd, buf, n); }

static int under_root(const char *p) {
    if (!p) return 0;
    for (int i = 0; i < nroots; i++) {
        size_t l = strlen(roots[i]);
        if (strncmp(p, roots[i], l) == 0 && (p[l] == '/' || p[l] == 0)) return 1;
    }
    return 0;
}

/* makes an absolute path out of (dirfd, path) in buf; returns buf or NULL */
static const char *absolute(int dirfd, const char *path, char *buf, size_t n) {
    if (!path) return NULL;
    if (path[0] == '/') return path;
    if (dirfd == AT_FDCWD) {
        if (!getcwd(buf, n)) return NULL;
    } else if (dirfd >= 0 && dirfd < MAXFD && fd_path[dirfd]) {
        snprintf(buf, n, "%s", fd_path[dirfd]);
    } else {
        return NULL;
    }
    size_t l = strlen(buf);
    if (path[0] == 0) return buf;
    snprintf(buf + l, n - l, "/%s", path);
    return buf;
}

static void enc(char *dst, size_t n, const char *src) {
    size_t j = 0;
    if (!src) { dst[0] = 0; return; }
    for (size_t i = 0; src[i] && j + 4 < n; i++) {
        unsigned char c = (unsigned char)src[i];
        if (c <= 0x20 || c == '%' || c >= 0x7f) j += snprintf(dst + j, n - j, "%%%02X", c);
        else dst[j++] = (char)c;
    }
    dst[j] = 0;
}

/* Returns the event number, or -1 if the call is not an event. If the event is the injection
 * point: kill/pause are performed here; for fail *fail_errno is set (> 0). */
static long event_begin(char cls, int *fail_errno) {
    *fail_errno = 0;
    if (!active) return -1;
    if ((cls == 'm' && !cls_m) || (cls == 'r' && !cls_r) || (cls == 'c' && !cls_c) || (cls == 'p' && !cls_p)) return -1;
    long k = __atomic_fetch_add(&counter, 1, __ATOMIC_SEQ_CST);
    if (cls == 'm' && tf_tag[0] && cur_call) {
        if (has_tag(tf_tag, cur_p1, cur_p2)) {
            long j = __atomic_fetch_add(&tf_count, 1, __ATOMIC_SEQ_CST);
            if (j == tf_j) {
                /* ordered after the suspension of the other worker (if one is requested): the failure happens
                 * while that worker sits between two of its steps */
                if (th_tag[0]) {
                    long long t0 = now_ns();
                    while (!__atomic_load_n(&hold_started, __ATOMIC_SEQ_CST) && now_ns() - t0 < 1500 * 1000000LL) {
                        struct timespec d = {0, 2 * 1000000};
                        syscall(SYS_nanosleep, &d, NULL);
                    }
                }
                *fail_errno = tf_errno;
                snprintf(tf_call, sizeof tf_call, "%s", cur_call);
                __atomic_store_n(&tf_fired, 1, __ATOMIC_SEQ_CST);
            }
        }
        if (!*fail_errno && tf_persist && __atomic_load_n(&tf_fired, __ATOMIC_SEQ_CST) && !strcmp(cur_call, tf_call))
            *fail_errno = tf_errno;
    }
    if (mode != M_RECORD && (k == at1 || k == at2)) {
        if (mode == M_KILL) {
            const char *msg = "#KILL\n";
            if (log_fd >= 0) raw_write(log_fd, msg, strlen(msg));
            syscall(SYS_kill, getpid(), SIGKILL);
        } else if (mode == M_PAUSE) {
            char b[64];
            int l = snprintf(b, sizeof b, "#PAUSE\t%ld\n", k);
            if (log_fd >= 0) raw_write(log_fd, b, l);
            /* directed at the CALLING thread: it stops right here, on its way out of this system call. A
             * process-directed SIGSTOP is handed to the main thread, and the group stop only begins once that
             * thread has dequeued it - the calling thread could execute the event (and more) before it stops. */
            syscall(SYS_tgkill, getpid(), (pid_t)syscall(SYS_gettid), SIGSTOP);
        } else if (mode == M_FAIL) {
            *fail_errno = (k == at1) ? errno1 : errno2;
        }
    }
    return k;
}

static void event_end(long k, char cls, const char *call, const char *p1, const char *p2, const char *info,
                      long ret, int err) {
    if (k < 0 || log_fd < 0) return;
    char e1[2 * PATH_MAX], e2[2 * PATH_MAX], line[5 * PATH_MAX];
    enc(e1, sizeof e1, p1);
    enc(e2, sizeof e2, p2);
    int l = snprintf(line, sizeof line, "%ld\t%c\t%ld\t%s\t%s\t%s\t%s\t%ld\t%d\n", k, cls, (long)syscall(SYS_gettid), call,
                     e1, e2, info ? info : "", ret, err);
    pthread_mutex_lock(&mu);
    raw_write(log_fd, line, l);
    pthread_mutex_unlock(&mu);
    if (cls == 'm') {
        __atomic_store_n(&last_event_ns, now_ns(), __ATOMIC_SEQ_CST);
        __atomic_fetch_add(&m_events, 1, __ATOMIC_SEQ_CST);
        if (th_tag[0] && has_tag(th_tag, p1, p2)) {
            long j = __atomic_fetch_add(&th_count, 1, __ATOMIC_SEQ_CST);
            if (j == th_j) {
                const char *msg = "#HOLD\n";
                raw_write(log_fd, msg, strlen(msg));
                __atomic_store_n(&hold_started, 1, __ATOMIC_SEQ_CST);
                long long t0 = now_ns();
                long seen0 = __atomic_load_n(&m_events, __ATOMIC_SEQ_CST);
                for (;;) {
                    struct timespec d = {0, 5 * 1000000};
                    syscall(SYS_nanosleep, &d, NULL);
                    long long t = now_ns();
                    /* the others have done something since, and have been silent for quiet_ms: they are through */
                    if (__atomic_load_n(&m_events, __ATOMIC_SEQ_CST) > seen0 &&
                        t - __atomic_load_n(&last_event_ns, __ATOMIC_SEQ_CST) > th_quiet_ms * 1000000LL) break;
                    if (t - t0 > th_max_ms * 1000000LL) break;
                }
            }
        }
    }
    cur_call = NULL;
}

/* number of descriptors currently open on paths under the roots, and its maximum (reported as #MAXOPEN at exit) */
static long open_now = 0, open_max = 0;
static int fake_nofile = 0;       /* FCSHIM_FAKE_NOFILE: what getrlimit(RLIMIT_NOFILE) reports to the subject */
static long read_delay_us = 0;    /* FCSHIM_READ_DELAY_US: every read of a tracked file takes at least this long */
static int fake_nofile_hard = 0;  /* FCSHIM_FAKE_NOFILE_HARD: reported hard limit (default: same as the soft one) */
static int setrlimit_errno = 0;   /* FCSHIM_SETRLIMIT_ERRNO: setrlimit(RLIMIT_NOFILE) fails with this errno (seccomp, container) */

static void count_open(int delta) {
    long n = __atomic_add_fetch(&open_now, delta, __ATOMIC_SEQ_CST);
    long m = __atomic_load_n(&open_max, __ATOMIC_SEQ_CST);
    while (n > m && !__atomic_compare_exchange_n(&open_max, &m, n, 0, __ATOMIC_SEQ_CST, __ATOMIC_SEQ_CST)) {}
}

static void track_open(int fd, const char *path, int writable) {
    if (fd < 0 || fd >= MAXFD) return;
    int had = fd_path[fd] != NULL;
    free(fd_path[fd]);
    fd_path[fd] = path ? strdup(path) : NULL;
    fd_write[fd] = writable;
    if (!had && path) count_open(1);
    else if (had && !path) count_open(-1);
}

__attribute__((destructor)) static void fini(void) {
    if (!active || log_fd < 0) return;
    char b[64];
    int l = snprintf(b, sizeof b, "#MAXOPEN\t%ld\n", __atomic_load_n(&open_max, __ATOMIC_SEQ_CST));
    raw_write(log_fd, b, l);
}

static const char *path_of_fd(int fd) { return (fd >= 0 && fd < MAXFD) ? fd_path[fd] : NULL; }

__attribute__((constructor)) static void init(void) {
    if (initialised) return;
    initialised = 1;
    char exe[PATH_MAX];
    ssize_t n = readlink("/proc/self/exe", exe, sizeof exe - 1);
    if (n <= 0) return;
    exe[n] = 0;
    const char *base = strrchr(exe, '/');
    base = base ? base + 1 : exe;
    const char *want = getenv("FCSHIM_EXE");
    if (strcmp(base, want ? want : "fclones") != 0) return;
    const char *r = getenv("FCSHIM_ROOT");
    if (!r) return;
    char *copy = strdup(r), *save = NULL;
    for (char *t = strtok_r(copy, ":", &save); t && nroots < MAXROOTS; t = strtok_r(NULL, ":", &save)) roots[nroots++] = t;
    const char *c = getenv("FCSHIM_CLASSES");
    if (!c) c = "m";
    cls_m = strchr(c, 'm') != NULL;
    cls_r = strchr(c, 'r') != NULL;
    cls_c = strchr(c, 'c') != NULL;
    cls_p = strchr(c, 'p') != NULL;
    const char *m = getenv("FCSHIM_MODE");
    if (m && !strcmp(m, "fail")) mode = M_FAIL;
    else if (m && !strcmp(m, "kill")) mode = M_KILL;
    else if (m && !strcmp(m, "pause")) mode = M_PAUSE;
    if (getenv("FCSHIM_AT")) at1 = atol(getenv("FCSHIM_AT"));
    if (getenv("FCSHIM_AT2")) at2 = atol(getenv("FCSHIM_AT2"));
    if (getenv("FCSHIM_ERRNO")) errno1 = atoi(getenv("FCSHIM_ERRNO"));
    if (getenv("FCSHIM_ERRNO2")) errno2 = atoi(getenv("FCSHIM_ERRNO2"));
    emulate_clone = getenv("FCSHIM_EMULATE_CLONE") != NULL;
    if (getenv("FCSHIM_FAKE_NOFILE")) fake_nofile = atoi(getenv("FCSHIM_FAKE_NOFILE"));
    if (getenv("FCSHIM_READ_DELAY_US")) read_delay_us = atol(getenv("FCSHIM_READ_DELAY_US"));
    if (getenv("FCSHIM_FAKE_NOFILE_HARD")) fake_nofile_hard = atoi(getenv("FCSHIM_FAKE_NOFILE_HARD"));
    if (getenv("FCSHIM_SETRLIMIT_ERRNO")) setrlimit_errno = atoi(getenv("FCSHIM_SETRLIMIT_ERRNO"));
    const char *tf = getenv("FCSHIM_TFAIL");
    if (tf) {
        char *c2 = strdup(tf), *sv = NULL;
        char *a = strtok_r(c2, ":", &sv), *b = strtok_r(NULL, ":", &sv), *e = strtok_r(NULL, ":", &sv), *pz = strtok_r(NULL, ":", &sv);
        if (a && b && e) { snprintf(tf_tag, sizeof tf_tag, "%s", a); tf_j = atol(b); tf_errno = atoi(e); tf_persist = pz != NULL; }
    }
    const char *th = getenv("FCSHIM_THOLD");
    if (th) {
        char *c2 = strdup(th), *sv = NULL;
        char *a = strtok_r(c2, ":", &sv), *b = strtok_r(NULL, ":", &sv), *q = strtok_r(NULL, ":", &sv), *mx = strtok_r(NULL, ":", &sv);
        if (a && b) { snprintf(th_tag, sizeof th_tag, "%s", a); th_j = atol(b); }
        if (q) th_quiet_ms = atol(q);
        if (mx) th_max_ms = atol(mx);
    }
    if (getenv("FCSHIM_LOCK_UNSUPPORTED")) snprintf(lock_unsupported, sizeof lock_unsupported, "%s", getenv("FCSHIM_LOCK_UNSUPPORTED"));
    const char *lg = getenv("FCSHIM_LOG");
    if (lg) log_fd = (int)syscall(SYS_openat, AT_FDCWD, lg, O_WRONLY | O_CREAT | O_APPEND | O_CLOEXEC, 0644);
    active = 1;
}

/* ------------------------------------------------------------------ path based, two outcomes */

#define PATH_CALL_INT(cls, callname, p1, p2, info, realcall)                        \
    do {                                                                            \
        int fe;                                                                     \
        SET_CUR(callname, p1, p2);                                                  \
        long k = under_root(p1) || under_root(p2) ? event_begin(cls, &fe) : (fe = 0, -1); \
        if (fe) {                                                                   \
            event_end(k, cls, callname, p1, p2, info, -1, fe);                      \
            errno = fe;                                                             \
            return -1;                                                              \
        }                                                                           \
        long r_ = (realcall);                                                       \
        int e_ = errno;                                                             \
        event_end(k, cls, callname, p1, p2, info, r_, r_ < 0 ? e_ : 0);             \
        errno = e_;                                                                 \
        return r_;                                                                  \
    } while (0)

int rename(const char *a, const char *b) {
    REAL(int, rename, const char *, const char *);
    if (!active) return real_rename(a, b);
    char b1[PATH_MAX], b2[PATH_MAX];
    const char *p1 = absolute(AT_FDCWD, a, b1, sizeof b1), *p2 = absolute(AT_FDCWD, b, b2, sizeof b2);
    PATH_CALL_INT('m', "rename", p1, p2, "", real_rename(a, b));
}

int renameat(int d1, const char *a, int d2, const char *b) {
    REAL(int, renameat, int, const char *, int, const char *);
    if (!active) return real_renameat(d1, a, d2, b);
    char b1[PATH_MAX], b2[PATH_MAX];
    const char *p1 = absolute(d1, a, b1, sizeof b1), *p2 = absolute(d2, b, b2, sizeof b2);
    PATH_CALL_INT('m', "rename", p1, p2, "", real_renameat(d1, a, d2, b));
}

int renameat2(int d1, const char *a, int d2, const char *b, unsigned int flags) {
    REAL(int, renameat2, int, const char *, int, const char *, unsigned int);
    if (!active) return real_renameat2(d1, a, d2, b, flags);
    char b1[PATH_MAX], b2[PATH_MAX], info[32];
    const char *p1 = absolute(d1, a, b1, sizeof b1), *p2 = absolute(d2, b, b2, sizeof b2);
    snprintf(info, sizeof info, flags ? "flags=%u" : "", flags);
    PATH_CALL_INT('m', "rename", p1, p2, info, real_renameat2(d1, a, d2, b, flags));
}

int link(const char *a, const char *b) {
    REAL(int, link, const char *, const char *);
    if (!active) return real_link(a, b);
    char b1[PATH_MAX], b2[PATH_MAX];
    const char *p1 = absolute(AT_FDCWD, a, b1, sizeof b1), *p2 = absolute(AT_FDCWD, b, b2, sizeof b2);
    PATH_CALL_INT('m', "link", p1, p2, "", real_link(a, b));
}

int linkat(int d1, const char *a, int d2, const char *b, int flags) {
    REAL(int, linkat, int, const char *, int, const char *, int);
    if (!active) return real_linkat(d1, a, d2, b, flags);
    char b1[PATH_MAX], b2[PATH_MAX];
    const char *p1 = absolute(d1, a, b1, sizeof b1), *p2 = absolute(d2, b, b2, sizeof b2);
    PATH_CALL_INT('m', "link", p1, p2, "", real_linkat(d1, a, d2, b, flags));
}

int symlink(const char *target, const char *linkpath) {
    REAL(int, symlink, const char *, const char *);
    if (!active) return real_symlink(target, linkpath);
    char b2[PATH_MAX];
    const char *p2 = absolute(AT_FDCWD, linkpath, b2, sizeof b2);
    /* path = the link that is created, path2 = its target text (not a path that is touched) */
    do {
        int fe;
        SET_CUR("symlink", p2, NULL);
        long k = under_root(p2) ? event_begin('m', &fe) : (fe = 0, -1);
        if (fe) { event_end(k, 'm', "symlink", p2, target, "", -1, fe); errno = fe; return -1; }
        long r_ = real_symlink(target, linkpath);
        int e_ = errno;
        event_end(k, 'm', "symlink", p2, target, "", r_, r_ < 0 ? e_ : 0);
        errno = e_;
        return r_;
    } while (0);
}

int unlink(const char *a) {
    REAL(int, unlink, const char *);
    if (!active) return real_unlink(a);
    char b1[PATH_MAX];
    const char *p1 = absolute(AT_FDCWD, a, b1, sizeof b1);
    PATH_CALL_INT('m', "unlink", p1, NULL, "", real_unlink(a));
}

int unlinkat(int d, const char *a, int flags) {
    REAL(int, unlinkat, int, const char *, int);
    if (!active) return real_unlinkat(d, a, flags);
    char b1[PATH_MAX];
    const char *p1 = absolute(d, a, b1, sizeof b1);
    PATH_CALL_INT('m', (flags & AT_REMOVEDIR) ? "rmdir" : "unlink", p1, NULL, "", real_unlinkat(d, a, flags));
}

int rmdir(const char *a) {
    REAL(int, rmdir, const char *);
    if (!active) return real_rmdir(a);
    char b1[PATH_MAX];
    const char *p1 = absolute(AT_FDCWD, a, b1, sizeof b1);
    PATH_CALL_INT('m', "rmdir", p1, NULL, "", real_rmdir(a));
}

int mkdir(const char *a, mode_t m) {
    REAL(int, mkdir, const char *, mode_t);
    if (!active) return real_mkdir(a, m);
    char b1[PATH_MAX];
    const char *p1 = absolute(AT_FDCWD, a, b1, sizeof b1);
    PATH_CALL_INT('m', "mkdir", p1, NULL, "", real_mkdir(a, m));
}

int mkfifo(const char *a, mode_t m) {
    REAL(int, mkfifo, const char *, mode_t);
    if (!active) return real_mkfifo(a, m);
    char b1[PATH_MAX];
    const char *p1 = absolute(AT_FDCWD, a, b1, sizeof b1);
    PATH_CALL_INT('m', "mkfifo", p1, NULL, "", real_mkfifo(a, m));
}

int chmod(const char *a, mode_t m) {
    REAL(int, chmod, const char *, mode_t);
    if (!active) return real_chmod(a, m);
    char b1[PATH_MAX];
    const char *p1 = absolute(AT_FDCWD, a, b1, sizeof b1);
    PATH_CALL_INT('m', "chmod", p1, NULL, "", real_chmod(a, m));
}

int chown(const char *a, uid_t u, gid_t g) {
    REAL(int, chown, const char *, uid_t, gid_t);
    if (!active) return real_chown(a, u, g);
    char b1[PATH_MAX];
    const char *p1 = absolute(AT_FDCWD, a, b1, sizeof b1);
    PATH_CALL_INT('m', "chown", p1, NULL, "", real_chown(a, u, g));
}

int lchown(const char *a, uid_t u, gid_t g) {
    REAL(int, lchown, const char *, uid_t, gid_t);
    if (!active) return real_lchown(a, u, g);
    char b1[PATH_MAX];
    const char *p1 = absolute(AT_FDCWD, a, b1, sizeof b1);
    PATH_CALL_INT('m', "chown", p1, NULL, "", real_lchown(a, u, g));
}

int truncate(const char *a, off_t len) {
    REAL(int, truncate, const char *, off_t);
    if (!active) return real_truncate(a, len);
    char b1[PATH_MAX];
    const char *p1 = absolute(AT_FDCWD, a, b1, sizeof b1);
    PATH_CALL_INT('m', "truncate", p1, NULL, "", real_truncate(a, len));
}

int utimensat(int d, const char *a, const struct timespec t[2], int flags) {
    REAL(int, utimensat, int, const char *, const struct timespec *, int);
    if (!active) return real_utimensat(d, a, t, flags);
    char b1[PATH_MAX];
    const char *volatile va = a;
    const char *pa = va;
    const char *p1 = pa ? absolute(d, pa, b1, sizeof b1) : path_of_fd(d);
    PATH_CALL_INT('m', "utimens", p1, NULL, "", real_utimensat(d, a, t, flags));
}

int futimens(int fd, const struct timespec t[2]) {
    REAL(int, futimens, int, const struct timespec *);
    if (!active) return real_futimens(fd, t);
    const char *p1 = path_of_fd(fd);
    PATH_CALL_INT('m', "utimens", p1, NULL, "", real_futimens(fd, t));
}

int fchmod(int fd, mode_t m) {
    REAL(int, fchmod, int, mode_t);
    if (!active) return real_fchmod(fd, m);
    const char *p1 = path_of_fd(fd);
    PATH_CALL_INT('m', "chmod", p1, NULL, "", real_fchmod(fd, m));
}

int fchown(int fd, uid_t u, gid_t g) {
    REAL(int, fchown, int, uid_t, gid_t);
    if (!active) return real_fchown(fd, u, g);
    const char *p1 = path_of_fd(fd);
    PATH_CALL_INT('m', "chown", p1, NULL, "", real_fchown(fd, u, g));
}

int ftruncate(int fd, off_t len) {
    REAL(int, ftruncate, int, off_t);
    if (!active) return real_ftruncate(fd, len);
    const char *p1 = path_of_fd(fd);
    PATH_CALL_INT('m', "truncate", p1, NULL, "", real_ftruncate(fd, len));
}

/* ------------------------------------------------------------------ open / close */

static int do_open(const char *callname, int dirfd, const char *path, int flags, mode_t m,
                   int (*realfn)(int, const char *, int, mode_t)) {
    char b1[PATH_MAX];
    const char *p1 = absolute(dirfd, path, b1, sizeof b1);
    int writable = (flags & O_ACCMODE) != O_RDONLY || (flags & (O_CREAT | O_TRUNC));
    char cls = writable ? 'm' : 'r';
    char info[64];
    snprintf(info, sizeof info, "%s%s%s%s", writable ? "w" : "r", (flags & O_CREAT) ? ",creat" : "",
             (flags & O_TRUNC) ? ",trunc" : "", (flags & O_DIRECTORY) ? ",dir" : "");
    int fe = 0;
    SET_CUR(callname, p1, NULL);
    long k = under_root(p1) ? event_begin(cls, &fe) : -1;
    if (fe) {
        event_end(k, cls, callname, p1, NULL, info, -1, fe);
        errno = fe;
        return -1;
    }
    int fd = realfn(dirfd, path, flags, m);
    int e = errno;
    if (fd >= 0 && under_root(p1)) track_open(fd, p1, writable);
    else if (fd >= 0) track_open(fd, NULL, 0);
    event_end(k, cls, callname, p1, NULL, info, fd, fd < 0 ? e : 0);
    errno = e;
    return fd;
}

static int real_openat_wrap(int dirfd, const char *path, int flags, mode_t m) {
    REAL(int, openat64, int, const char *, int, ...);
    return real_openat64(dirfd, path, flags, m);
}

int open(const char *path, int flags, ...) {
    mode_t m = 0;
    if (flags & (O_CREAT | O_TMPFILE)) { va_list ap; va_start(ap, flags); m = va_arg(ap, mode_t); va_end(ap); }
    if (!active) return real_openat_wrap(AT_FDCWD, path, flags, m);
    return do_open("open", AT_FDCWD, path, flags, m, real_openat_wrap);
}

int open64(const char *path, int flags, ...) {
    mode_t m = 0;
    if (flags & (O_CREAT | O_TMPFILE)) { va_list ap; va_start(ap, flags); m = va_arg(ap, mode_t); va_end(ap); }
    if (!active) return real_openat_wrap(AT_FDCWD, path, flags, m);
    return do_open("open", AT_FDCWD, path, flags, m, real_openat_wrap);
}

int openat(int dirfd, const char *path, int flags, ...) {
    mode_t m = 0;
    if (flags & (O_CREAT | O_TMPFILE)) { va_list ap; va_start(ap, flags); m = va_arg(ap, mode_t); va_end(ap); }
    if (!active) return real_openat_wrap(dirfd, path, flags, m);
    return do_open("open", dirfd, path, flags, m, real_openat_wrap);
}

int openat64(int dirfd, const char *path, int flags, ...) {
    mode_t m = 0;
    if (flags & (O_CREAT | O_TMPFILE)) { va_list ap; va_start(ap, flags); m = va_arg(ap, mode_t); va_end(ap); }
    if (!active) return real_openat_wrap(dirfd, path, flags, m);
    return do_open("open", dirfd, path, flags, m, real_openat_wrap);
}

int close(int fd) {
    REAL(int, close, int);
    if (active && fd >= 0 && fd < MAXFD && fd_path[fd]) {
        free(fd_path[fd]);
        fd_path[fd] = NULL;
        fd_write[fd] = 0;
        count_open(-1);
    }
    return real_close(fd);
}

/* ------------------------------------------------------------------ read / write on tracked descriptors */

ssize_t read(int fd, void *buf, size_t n) {
    REAL(ssize_t, read, int, void *, size_t);
    if (!active) return real_read(fd, buf, n);
    const char *p1 = path_of_fd(fd);
    if (!p1) return real_read(fd, buf, n);
    int fe;
    long k = event_begin('r', &fe);
    if (fe) { event_end(k, 'r', "read", p1, NULL, "", -1, fe); errno = fe; return -1; }
    if (read_delay_us > 0) {
        struct timespec ts = { read_delay_us / 1000000, (read_delay_us % 1000000) * 1000 };
        nanosleep(&ts, NULL);
    }
    ssize_t r = real_read(fd, buf, n);
    int e = errno;
    event_end(k, 'r', "read", p1, NULL, "", r, r < 0 ? e : 0);
    errno = e;
    return r;
}

ssize_t pread64(int fd, void *buf, size_t n, off64_t off) {
    REAL(ssize_t, pread64, int, void *, size_t, off64_t);
    if (!active) return real_pread64(fd, buf, n, off);
    const char *p1 = path_of_fd(fd);
    if (!p1) return real_pread64(fd, buf, n, off);
    int fe;
    long k = event_begin('r', &fe);
    if (fe) { event_end(k, 'r', "read", p1, NULL, "", -1, fe); errno = fe; return -1; }
    ssize_t r = real_pread64(fd, buf, n, off);
    int e = errno;
    event_end(k, 'r', "read", p1, NULL, "", r, r < 0 ? e : 0);
    errno = e;
    return r;
}

ssize_t write(int fd, const void *buf, size_t n) {
    REAL(ssize_t, write, int, const void *, size_t);
    if (!active) return real_write(fd, buf, n);
    const char *p1 = path_of_fd(fd);
    if (!p1) return real_write(fd, buf, n);
    int fe;
    SET_CUR("write", p1, NULL);
    long k = event_begin('m', &fe);
    if (fe) { event_end(k, 'm', "write", p1, NULL, "", -1, fe); errno = fe; return -1; }
    ssize_t r = real_write(fd, buf, n);
    int e = errno;
    event_end(k, 'm', "write", p1, NULL, "", r, r < 0 ? e : 0);
    errno = e;
    return r;
}

ssize_t copy_file_range(int fin, off64_t *oin, int fout, off64_t *oout, size_t len, unsigned flags) {
    REAL(ssize_t, copy_file_range, int, off64_t *, int, off64_t *, size_t, unsigned);
    if (!active) return real_copy_file_range(fin, oin, fout, oout, len, flags);
    const char *p1 = path_of_fd(fout), *p2 = path_of_fd(fin);
    if (!p1 && !p2) return real_copy_file_range(fin, oin, fout, oout, len, flags);
    int fe;
    SET_CUR("copy_file_range", p1, p2);
    long k = event_begin('m', &fe);
    if (fe) { event_end(k, 'm', "copy_file_range", p1, p2, "", -1, fe); errno = fe; return -1; }
    ssize_t r = real_copy_file_range(fin, oin, fout, oout, len, flags);
    int e = errno;
    event_end(k, 'm', "copy_file_range", p1, p2, "", r, r < 0 ? e : 0);
    errno = e;
    return r;
}

ssize_t sendfile64(int fout, int fin, off64_t *off, size_t len) {
    REAL(ssize_t, sendfile64, int, int, off64_t *, size_t);
    if (!active) return real_sendfile64(fout, fin, off, len);
    const char *p1 = path_of_fd(fout), *p2 = path_of_fd(fin);
    if (!p1 && !p2) return real_sendfile64(fout, fin, off, len);
    int fe;
    SET_CUR("sendfile", p1, p2);
    long k = event_begin('m', &fe);
    if (fe) { event_end(k, 'm', "sendfile", p1, p2, "", -1, fe); errno = fe; return -1; }
    ssize_t r = real_sendfile64(fout, fin, off, len);
    int e = errno;
    event_end(k, 'm', "sendfile", p1, p2, "", r, r < 0 ? e : 0);
    errno = e;
    return r;
}

ssize_t sendfile(int fout, int fin, off_t *off, size_t len) { return sendfile64(fout, fin, (off64_t *)off, len); }

/* ------------------------------------------------------------------ stat family */

int statx(int dirfd, const char *path, int flags, unsigned mask, struct statx *buf) {
    REAL(int, statx, int, const char *, int, unsigned, struct statx *);
    if (!active) return real_statx(dirfd, path, flags, mask, buf);
    char b1[PATH_MAX];
    /* the prototype declares path nonnull, but Rust's std probes statx(0, NULL, 0, mask, NULL): keep the
     * compiler from assuming path != NULL */
    const char *volatile vpath = path;
    const char *pp = vpath;
    const char *p1 = (pp && pp[0]) ? absolute(dirfd, pp, b1, sizeof b1) : path_of_fd(dirfd);
    PATH_CALL_INT('r', (flags & AT_SYMLINK_NOFOLLOW) ? "lstat" : "stat", p1, NULL, "", real_statx(dirfd, path, flags, mask, buf));
}

int stat64(const char *path, struct stat64 *buf) {
    REAL(int, stat64, const char *, struct stat64 *);
    if (!active) return real_stat64(path, buf);
    char b1[PATH_MAX];
    const char *p1 = absolute(AT_FDCWD, path, b1, sizeof b1);
    PATH_CALL_INT('r', "stat", p1, NULL, "", real_stat64(path, buf));
}

int lstat64(const char *path, struct stat64 *buf) {
    REAL(int, lstat64, const char *, struct stat64 *);
    if (!active) return real_lstat64(path, buf);
    char b1[PATH_MAX];
    const char *p1 = absolute(AT_FDCWD, path, b1, sizeof b1);
    PATH_CALL_INT('r', "lstat", p1, NULL, "", real_lstat64(path, buf));
}

int fstatat64(int dirfd, const char *path, struct stat64 *buf, int flags) {
    REAL(int, fstatat64, int, const char *, struct stat64 *, int);
    if (!active) return real_fstatat64(dirfd, path, buf, flags);
    char b1[PATH_MAX];
    const char *p1 = (path && path[0]) ? absolute(dirfd, path, b1, sizeof b1) : path_of_fd(dirfd);
    PATH_CALL_INT('r', (flags & AT_SYMLINK_NOFOLLOW) ? "lstat" : "stat", p1, NULL, "", real_fstatat64(dirfd, path, buf, flags));
}

int access(const char *path, int amode) {
    REAL(int, access, const char *, int);
    if (!active) return real_access(path, amode);
    char b1[PATH_MAX];
    const char *p1 = absolute(AT_FDCWD, path, b1, sizeof b1);
    PATH_CALL_INT('r', "access", p1, NULL, "", real_access(path, amode));
}

ssize_t readlink(const char *path, char *buf, size_t n) {
    REAL(ssize_t, readlink, const char *, char *, size_t);
    if (!active) return real_readlink(path, buf, n);
    char b1[PATH_MAX];
    const char *p1 = absolute(AT_FDCWD, path, b1, sizeof b1);
    PATH_CALL_INT('r', "readlink", p1, NULL, "", real_readlink(path, buf, n));
}

char *realpath(const char *path, char *resolved) {
    REAL(char *, realpath, const char *, char *);
    if (!active) return real_realpath(path, resolved);
    char b1[PATH_MAX];
    const char *p1 = absolute(AT_FDCWD, path, b1, sizeof b1);
    int fe = 0;
    long k = under_root(p1) ? event_begin('r', &fe) : -1;
    if (fe) { event_end(k, 'r', "realpath", p1, NULL, "", -1, fe); errno = fe; return NULL; }
    char *r = real_realpath(path, resolved);
    int e = errno;
    event_end(k, 'r', "realpath", p1, NULL, "", r ? 0 : -1, r ? 0 : e);
    errno = e;
    return r;
}

/* ------------------------------------------------------------------ directories */

struct dirrec { DIR *d; char *path; };
static struct dirrec dirs[256];

DIR *opendir(const char *path) {
    REAL(DIR *, opendir, const char *);
    if (!active) return real_opendir(path);
    char b1[PATH_MAX];
    const char *p1 = absolute(AT_FDCWD, path, b1, sizeof b1);
    int fe = 0;
    long k = under_root(p1) ? event_begin('r', &fe) : -1;
    if (fe) { event_end(k, 'r', "opendir", p1, NULL, "", -1, fe); errno = fe; return NULL; }
    DIR *d = real_opendir(path);
    int e = errno;
    if (d && under_root(p1)) {
        pthread_mutex_lock(&mu);
        for (int i = 0; i < 256; i++) if (!dirs[i].d) { dirs[i].d = d; dirs[i].path = strdup(p1); break; }
        pthread_mutex_unlock(&mu);
    }
    event_end(k, 'r', "opendir", p1, NULL, "", d ? 0 : -1, d ? 0 : e);
    errno = e;
    return d;
}

static const char *path_of_dir(DIR *d) {
    for (int i = 0; i < 256; i++) if (dirs[i].d == d) return dirs[i].path;
    return NULL;
}

struct dirent64 *readdir64(DIR *d) {
    REAL(struct dirent64 *, readdir64, DIR *);
    if (!active) return real_readdir64(d);
    const char *p1 = path_of_dir(d);
    if (!p1) return real_readdir64(d);
    int fe;
    long k = event_begin('r', &fe);
    if (fe) { event_end(k, 'r', "readdir", p1, NULL, "", -1, fe); errno = fe; return NULL; }
    errno = 0;
    struct dirent64 *r = real_readdir64(d);
    int e = errno;
    event_end(k, 'r', "readdir", p1, NULL, r ? r->d_name : "<end>", r ? 0 : (e ? -1 : 0), r ? 0 : e);
    errno = e;
    return r;
}

struct dirent *readdir(DIR *d) { return (struct dirent *)readdir64(d); }

int closedir(DIR *d) {
    REAL(int, closedir, DIR *);
    if (active) {
        pthread_mutex_lock(&mu);
        for (int i = 0; i < 256; i++) if (dirs[i].d == d) { dirs[i].d = NULL; free(dirs[i].path); dirs[i].path = NULL; }
        pthread_mutex_unlock(&mu);
    }
    return real_closedir(d);
}

/* ------------------------------------------------------------------ ioctl (FIEMAP, FICLONE), fcntl */

static int emulate_ficlone(int dst, int src) {
    struct stat st;
    if (fstat(src, &st) != 0) return -1;
    char *buf = malloc(1 << 16);
    off_t off = 0;
    while (off < st.st_size) {
        ssize_t n = syscall(SYS_pread64, src, buf, (size_t)(1 << 16), off);
        if (n <= 0) break;
        if (syscall(SYS_pwrite64, dst, buf, (size_t)n, off) != n) { free(buf); return -1; }
        off += n;
    }
    free(buf);
    if (syscall(SYS_ftruncate, dst, st.st_size) != 0) return -1;
    return 0;
}

int ioctl(int fd, unsigned long req, ...) {
    REAL(int, ioctl, int, unsigned long, ...);
    va_list ap;
    va_start(ap, req);
    void *arg = va_arg(ap, void *);
    va_end(ap);
    if (!active) return real_ioctl(fd, req, arg);
    const char *p1 = path_of_fd(fd);
    if (!p1 || (req != FICLONE && req != FS_IOC_FIEMAP)) return real_ioctl(fd, req, arg);
    char cls = req == FICLONE ? 'm' : 'r';
    const char *name = req == FICLONE ? "ficlone" : "fiemap";
    const char *p2 = req == FICLONE ? path_of_fd((int)(long)arg) : NULL;
    int fe;
    SET_CUR(name, p1, p2);
    long k = event_begin(cls, &fe);
    if (fe) { event_end(k, cls, name, p1, p2, "", -1, fe); errno = fe; return -1; }
    int r;
    if (req == FICLONE && emulate_clone) r = emulate_ficlone(fd, (int)(long)arg);
    else r = real_ioctl(fd, req, arg);
    int e = errno;
    event_end(k, cls, name, p1, p2, (req == FICLONE && emulate_clone) ? "emulated" : "", r, r < 0 ? e : 0);
    errno = e;
    return r;
}

/* FCSHIM_LOCK_UNSUPPORTED=<text>: advisory locks are "not supported" (EOPNOTSUPP, as on some network / FUSE file
 * systems) for files whose path contains <text>; not an event. */
static int lock_cmd(int cmd) {
    return cmd == F_SETLK || cmd == F_SETLKW
#ifdef F_OFD_SETLK
        || cmd == F_OFD_SETLK || cmd == F_OFD_SETLKW
#endif
        ;
}

int fcntl(int fd, int cmd, ...) {
    REAL(int, fcntl, int, int, ...);
    va_list ap;
    va_start(ap, cmd);
    void *arg = va_arg(ap, void *);
    va_end(ap);
    if (active && lock_unsupported[0] && lock_cmd(cmd)) {
        const char *p = path_of_fd(fd);
        if (p && strstr(p, lock_unsupported)) { errno = EOPNOTSUPP; return -1; }
    }
    return real_fcntl(fd, cmd, arg);
}

int fcntl64(int fd, int cmd, ...) {
    REAL(int, fcntl64, int, int, ...);
    va_list ap;
    va_start(ap, cmd);
    void *arg = va_arg(ap, void *);
    va_end(ap);
    if (active && lock_unsupported[0] && lock_cmd(cmd)) {
        const char *p = path_of_fd(fd);
        if (p && strstr(p, lock_unsupported)) { errno = EOPNOTSUPP; return -1; }
    }
    return real_fcntl64 ? real_fcntl64(fd, cmd, arg) : fcntl(fd, cmd, arg);
}

/* ------------------------------------------------------------------ descriptor limit as seen by the subject
 * The subject sizes its open-file budget from RLIMIT_NOFILE. Reporting a small limit while the real one stays large
 * makes an over-admission visible as a count (#MAXOPEN) instead of as EMFILE errors. */

int getrlimit(__rlimit_resource_t res, struct rlimit *rl) {
    REAL(int, getrlimit, __rlimit_resource_t, struct rlimit *);
    int r = real_getrlimit(res, rl);
    if (active && fake_nofile > 0 && res == RLIMIT_NOFILE && r == 0) {
        rl->rlim_cur = (rlim_t)fake_nofile;
        rl->rlim_max = (rlim_t)(fake_nofile_hard > 0 ? fake_nofile_hard : fake_nofile);
    }
    return r;
}

int getrlimit64(__rlimit_resource_t res, struct rlimit64 *rl) {
    REAL(int, getrlimit64, __rlimit_resource_t, struct rlimit64 *);
    int r = real_getrlimit64(res, rl);
    if (active && fake_nofile > 0 && res == RLIMIT_NOFILE && r == 0) {
        rl->rlim_cur = (rlim64_t)fake_nofile;
        rl->rlim_max = (rlim64_t)(fake_nofile_hard > 0 ? fake_nofile_hard : fake_nofile);
    }
    return r;
}

int setrlimit(__rlimit_resource_t res, const struct rlimit *rl) {
    REAL(int, setrlimit, __rlimit_resource_t, const struct rlimit *);
    if (active && fake_nofile > 0 && res == RLIMIT_NOFILE && setrlimit_errno) { errno = setrlimit_errno; return -1; }
    if (active && fake_nofile > 0 && res == RLIMIT_NOFILE) return 0;
    return real_setrlimit(res, rl);
}

int setrlimit64(__rlimit_resource_t res, const struct rlimit64 *rl) {
    REAL(int, setrlimit64, __rlimit_resource_t, const struct rlimit64 *);
    if (active && fake_nofile > 0 && res == RLIMIT_NOFILE && setrlimit_errno) { errno = setrlimit_errno; return -1; }
    if (active && fake_nofile > 0 && res == RLIMIT_NOFILE) return 0;
    return real_setrlimit64(res, rl);
}

/* ------------------------------------------------------------------ process control (class p)
 * A signal sent to another process (std::process::Child::kill) is a scheduling point between the subject and its
 * child: pausing here lets the child run first. */

int kill(pid_t pid, int sig) {
    REAL(int, kill, pid_t, int);
    if (!active || !cls_p || pid == getpid()) return real_kill(pid, sig);
    int fe;
    long k = event_begin('p', &fe);
    if (fe) { event_end(k, 'p', "kill", NULL, NULL, "", -1, fe); errno = fe; return -1; }
    int r = real_kill(pid, sig);
    int e = errno;
    char info[32];
    snprintf(info, sizeof info, "sig=%d", sig);
    event_end(k, 'p', "kill", NULL, NULL, info, r, r < 0 ? e : 0);
    errno = e;
    return r;
}

/* ------------------------------------------------------------------ clock */

int clock_gettime(clockid_t id, struct timespec *ts) {
    REAL(int, clock_gettime, clockid_t, struct timespec *);
    if (!active || id != CLOCK_REALTIME || !cls_c) return real_clock_gettime(id, ts);
    int fe;
    long k = event_begin('c', &fe);
    int r = real_clock_gettime(id, ts);
    char info[64];
    snprintf(info, sizeof info, "%lld.%09ld", (long long)ts->tv_sec, ts->tv_nsec);
    event_end(k, 'c', "clock_realtime", NULL, NULL, info, r, 0);
    return r;
}
