//! C19: exhaustive depth-first exploration (no bound, no reduction, scheduler-chosen wake-ups)
//! of the real /repo/fclones/src/semaphore.rs under shuttle.
//! usage: fcv-shuttle <mode> <T> <P> <N> <C> [replay <schedule>]
#![allow(dead_code, unused_imports)]

#[path = "/repo/fclones/src/semaphore.rs"]
mod semaphore;

use shuttle::sync::mpsc;
use shuttle::thread;

include!("../../sem/body.rs");

fn main() {
    let args: Vec<String> = std::env::args().skip(1).collect();
    let cfg = parse_cfg(&args);
    let mon = StdArc::new(Monitor::new());
    {
        let mon2 = mon.clone();
        let prev = std::panic::take_hook();
        std::panic::set_hook(Box::new(move |info| {
            eprintln!("FCV-FAIL iteration={}", mon2.executions.load(SeqCst));
            prev(info);
        }));
    }
    let (cfg2, mon2) = (cfg.clone(), mon.clone());
    if args.get(5).map(|s| s.as_str()) == Some("replay") {
        shuttle::replay(move || run_once(&cfg2, &mon2), &args[6]);
        report(&cfg, &mon, "shuttle-replay", "none", true);
        return;
    }
    shuttle::check_dfs(move || run_once(&cfg2, &mon2), None);
    report(&cfg, &mon, "shuttle", "none", true);
}
