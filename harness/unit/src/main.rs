//! fcv-unit: in-process bounded-exhaustive enumeration against fclones library functions
//! (built with --cfg fclones_verif so that `fclones::verif` exposes the private items).
//! Every subject call is wrapped in catch_unwind. Output: JSON lines on stdout.

mod glob;
mod quote;
mod report;
mod util;

fn main() {
    // Panics of the subject are caught and reported as violations; keep stderr quiet.
    std::panic::set_hook(Box::new(|_| {}));
    let args: Vec<String> = std::env::args().skip(1).collect();
    if args.is_empty() {
        eprintln!("usage: fcv-unit quote|glob|report ...");
        std::process::exit(2);
    }
    let rest = &args[1..];
    match args[0].as_str() {
        "quote" => quote::main(rest),
        "glob" => glob::main(rest),
        "report" => report::main(rest),
        other => {
            eprintln!("unknown subcommand {other}");
            std::process::exit(2);
        }
    }
}
