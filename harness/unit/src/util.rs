use std::collections::BTreeMap;

pub fn hex(b: &[u8]) -> String {
    b.iter().map(|x| format!("{:02x}", x)).collect()
}

pub fn unhex(s: &str) -> Vec<u8> {
    (0..s.len() / 2)
        .map(|i| u8::from_str_radix(&s[2 * i..2 * i + 2], 16).unwrap())
        .collect()
}

pub fn jstr(s: &str) -> String {
    let mut o = String::from("\"");
    for c in s.chars() {
        match c {
            '"' => o.push_str("\\\""),
            '\\' => o.push_str("\\\\"),
            '\n' => o.push_str("\\n"),
            '\r' => o.push_str("\\r"),
            '\t' => o.push_str("\\t"),
            c if (c as u32) < 0x20 || c == '\u{7f}' => o.push_str(&format!("\\u{:04x}", c as u32)),
            c => o.push(c),
        }
    }
    o.push('"');
    o
}

/// Aggregates violations by signature: count + a few examples.
#[derive(Default)]
pub struct Agg {
    pub sigs: BTreeMap<String, (u64, Vec<String>)>,
}

impl Agg {
    /// `sig`: JSON object body (without braces) of the feature signature;
    /// `example`: JSON object body describing the concrete case.
    pub fn add(&mut self, sig: String, example: impl FnOnce() -> String) {
        let e = self.sigs.entry(sig).or_insert((0, Vec::new()));
        e.0 += 1;
        if e.1.len() < 3 {
            e.1.push(example());
        }
    }
    pub fn merge(&mut self, other: Agg) {
        for (k, (n, ex)) in other.sigs {
            let e = self.sigs.entry(k).or_insert((0, Vec::new()));
            e.0 += n;
            for x in ex {
                if e.1.len() < 3 {
                    e.1.push(x);
                }
            }
        }
    }
    pub fn print(&self) {
        for (sig, (n, ex)) in &self.sigs {
            println!(
                "{{\"type\":\"violation\",\"sig\":{{{}}},\"count\":{},\"examples\":[{}]}}",
                sig,
                n,
                ex.iter().map(|e| format!("{{{}}}", e)).collect::<Vec<_>>().join(",")
            );
        }
    }
}

pub fn arg_val<'a>(args: &'a [String], name: &str) -> Option<&'a str> {
    let mut i = 0;
    while i < args.len() {
        if args[i] == name {
            return args.get(i + 1).map(|s| s.as_str());
        }
        i += 1;
    }
    None
}
