//! C17: shell quoting is lossless.
//!
//! fcv-unit quote --len L --shard I/N [--lists]      enumerate
//! fcv-unit quote --one <hex>[,<hex>...]             check one argument list
//!
//! Alphabet: 20 troublesome symbols (bytes / characters). Oracles:
//!   split(quote(s)) == [s];  bash decodes quote(s) to the bytes of s;
//!   split(join(list)) == list and bash agrees; Path::quote == arg::quote.

use crate::util::*;
use fclones::verif::arg::{join, quote, split, Arg};
use std::ffi::{OsStr, OsString};
use std::io::Write;
use std::os::unix::ffi::{OsStrExt, OsStringExt};
use std::panic::catch_unwind;
use std::process::{Command, Stdio};

pub fn alphabet() -> Vec<Vec<u8>> {
    vec![
        b"a".to_vec(),
        b" ".to_vec(),
        b"\t".to_vec(),
        b"\n".to_vec(),
        b"'".to_vec(),
        b"\"".to_vec(),
        b"\\".to_vec(),
        b"$".to_vec(),
        b"`".to_vec(),
        b"*".to_vec(),
        b"#".to_vec(),
        b"~".to_vec(),
        b"=".to_vec(),
        b"!".to_vec(),
        "ż".as_bytes().to_vec(),
        "€".as_bytes().to_vec(),
        "\u{a0}".as_bytes().to_vec(),
        vec![0x7f],
        vec![0xff],
        vec![0xc3],
    ]
}

fn strings_upto(len: usize) -> Vec<Vec<u8>> {
    let alpha = alphabet();
    let mut out: Vec<Vec<u8>> = Vec::new();
    let mut cur: Vec<Vec<u8>> = vec![vec![]];
    for _ in 0..len {
        let mut next = Vec::with_capacity(cur.len() * alpha.len());
        for s in &cur {
            for a in &alpha {
                let mut t = s.clone();
                t.extend_from_slice(a);
                next.push(t);
            }
        }
        out.extend(next.iter().cloned());
        cur = next;
    }
    out
}

const SENTINEL: &[u8] = b"\x01\x02";

/// Runs bash once on a batch of quoted argument lists; returns the decoded lists, or None if
/// bash failed as a whole (syntax error somewhere in the batch).
fn bash_batch(lines: &[String]) -> Option<Vec<Vec<Vec<u8>>>> {
    let mut script = String::new();
    for l in lines {
        script.push_str("printf '%s\\0' ");
        script.push_str(l);
        script.push_str("\nprintf '\\1\\2\\0'\n");
    }
    let mut child = Command::new("bash")
        .arg("--norc")
        .arg("--noprofile")
        .arg("-s")
        .env_clear()
        .env("HOME", "/fcv-home-sentinel")
        .env("PATH", "/usr/bin:/bin")
        .env("LC_ALL", "C.UTF-8")
        .stdin(Stdio::piped())
        .stdout(Stdio::piped())
        .stderr(Stdio::null())
        .spawn()
        .expect("cannot spawn bash");
    let mut stdin = child.stdin.take().unwrap();
    let sc = script.into_bytes();
    let writer = std::thread::spawn(move || {
        let _ = stdin.write_all(&sc);
    });
    let out = child.wait_with_output().expect("bash wait");
    let _ = writer.join();
    let mut res = Vec::new();
    let mut cur = Vec::new();
    let data = out.stdout;
    if !data.is_empty() && *data.last().unwrap() != 0 {
        return None;
    }
    for tok in data.split(|b| *b == 0) {
        if tok == SENTINEL {
            res.push(std::mem::take(&mut cur));
        } else {
            cur.push(tok.to_vec());
        }
    }
    // the split leaves one trailing empty token
    if cur.len() != 1 || !cur[0].is_empty() {
        return None;
    }
    if res.len() != lines.len() {
        return None;
    }
    Some(res)
}

fn bash_decode(lines: &[String]) -> Vec<Option<Vec<Vec<u8>>>> {
    if let Some(r) = bash_batch(lines) {
        return r.into_iter().map(Some).collect();
    }
    if lines.len() == 1 {
        return vec![None];
    }
    let mid = lines.len() / 2;
    let mut a = bash_decode(&lines[..mid]);
    a.extend(bash_decode(&lines[mid..]));
    a
}

fn style_of(q: &str) -> &'static str {
    if q.starts_with("$'") {
        "dollar"
    } else if q.starts_with('\'') {
        "single"
    } else {
        "bare"
    }
}

/// True if the *quoted* form contains a multi-byte character (invalid bytes are written as
/// ASCII escapes and do not count).
fn has_multibyte(q: &str) -> bool {
    q.chars().any(|c| c.len_utf8() > 1)
}

fn features(kind: &str, list: &[Vec<u8>], quoted: &[String]) -> String {
    let any_dollar = quoted.iter().any(|q| style_of(q) == "dollar");
    let styles: Vec<&str> = {
        let mut v: Vec<&str> = quoted.iter().map(|q| style_of(q)).collect();
        v.sort();
        v.dedup();
        v
    };
    let mb_dollar = quoted.iter().any(|q| style_of(q) == "dollar" && has_multibyte(q));
    // In a joined line, a multi-byte character anywhere before the end of a $'..' word shifts it.
    let mb_before_dollar = any_dollar && {
        let mut seen_mb = false;
        let mut hit = false;
        for q in quoted {
            if has_multibyte(q) {
                seen_mb = true;
            }
            if style_of(q) == "dollar" && seen_mb {
                hit = true;
            }
        }
        hit
    };
    let tilde = list.iter().zip(quoted).any(|(s, q)| s.first() == Some(&b'~') && style_of(q) == "bare");
    format!(
        "\"kind\":{},\"styles\":{},\"multibyte_in_dollar_quoted\":{},\"multibyte_before_dollar_quote_end\":{},\"leading_tilde_unquoted\":{}",
        jstr(kind),
        jstr(&styles.join("+")),
        mb_dollar,
        mb_before_dollar || mb_dollar,
        tilde
    )
}

fn example(list: &[Vec<u8>], line: &str, got: &str) -> String {
    format!(
        "\"input_hex\":{},\"quoted\":{},\"got\":{}",
        jstr(&list.iter().map(|s| hex(s)).collect::<Vec<_>>().join(",")),
        jstr(line),
        jstr(got)
    )
}

struct Stats {
    strings: u64,
    lists: u64,
    bash_checked: u64,
    dollar: u64,
    single: u64,
    bare: u64,
}

/// Checks a set of argument lists. Returns violations aggregated by signature.
fn check_lists(lists: &[Vec<Vec<u8>>], agg: &mut Agg, st: &mut Stats) {
    let mut lines: Vec<String> = Vec::with_capacity(lists.len());
    let mut quoted_all: Vec<Vec<String>> = Vec::with_capacity(lists.len());
    for list in lists {
        st.lists += 1;
        let args: Vec<Arg> = list
            .iter()
            .map(|s| Arg::from(OsString::from_vec(s.clone())))
            .collect();
        let quoted: Vec<String> = list
            .iter()
            .map(|s| quote(OsString::from_vec(s.clone())))
            .collect();
        for q in &quoted {
            match style_of(q) {
                "dollar" => st.dollar += 1,
                "single" => st.single += 1,
                _ => st.bare += 1,
            }
        }
        let line = join(&args);
        // Arg::quote (used by join) and Path::quote must agree with arg::quote
        let expected_line = quoted.join(" ");
        if line != expected_line {
            agg.add(features("join_differs_from_quote", list, &quoted), || {
                example(list, &line, &expected_line)
            });
        }
        if list.len() == 1 && !list[0].contains(&b'/') {
            let p = fclones::Path::from(OsString::from_vec(list[0].clone()));
            let pq = p.quote();
            if pq != quoted[0] {
                agg.add(features("path_quote_differs", list, &quoted), || example(list, &line, &pq));
            }
        }
        // own splitter
        let l2 = line.clone();
        let r = catch_unwind(move || split(&l2));
        match r {
            Err(_) => agg.add(features("split_panic", list, &quoted), || example(list, &line, "panic")),
            Ok(Err(e)) => agg.add(features("split_error", list, &quoted), || {
                example(list, &line, &e.to_string())
            }),
            Ok(Ok(v)) => {
                let got: Vec<Vec<u8>> = v.iter().map(|a| a.as_os_str().as_bytes().to_vec()).collect();
                if &got != list {
                    agg.add(features("split_mismatch", list, &quoted), || {
                        example(
                            list,
                            &line,
                            &got.iter().map(|s| hex(s)).collect::<Vec<_>>().join(","),
                        )
                    });
                }
            }
        }
        lines.push(line);
        quoted_all.push(quoted);
    }
    for (chunk_i, chunk) in lines.chunks(2000).enumerate() {
        let dec = bash_decode(chunk);
        for (j, d) in dec.into_iter().enumerate() {
            let idx = chunk_i * 2000 + j;
            let list = &lists[idx];
            st.bash_checked += 1;
            match d {
                None => agg.add(features("bash_error", list, &quoted_all[idx]), || {
                    example(list, &lines[idx], "bash failed")
                }),
                Some(got) => {
                    if &got != list {
                        agg.add(features("bash_mismatch", list, &quoted_all[idx]), || {
                            example(
                                list,
                                &lines[idx],
                                &got.iter().map(|s| hex(s)).collect::<Vec<_>>().join(","),
                            )
                        });
                    }
                }
            }
        }
    }
}

pub fn main(args: &[String]) {
    let mut agg = Agg::default();
    let mut st = Stats { strings: 0, lists: 0, bash_checked: 0, dollar: 0, single: 0, bare: 0 };
    if let Some(one) = arg_val(args, "--one") {
        let list: Vec<Vec<u8>> = one.split(',').map(unhex).collect();
        check_lists(&[list], &mut agg, &mut st);
    } else {
        let len: usize = arg_val(args, "--len").unwrap_or("3").parse().unwrap();
        let shard = arg_val(args, "--shard").unwrap_or("0/1");
        let (si, sn) = shard.split_once('/').unwrap();
        let (si, sn): (usize, usize) = (si.parse().unwrap(), sn.parse().unwrap());
        let mut lists: Vec<Vec<Vec<u8>>> = Vec::new();
        if args.iter().any(|a| a == "--lists") {
            // all lists of <= 3 strings of length <= 1, all pairs of strings of length <= 2
            let s1 = strings_upto(1);
            let s2 = strings_upto(2);
            let mut all: Vec<Vec<Vec<u8>>> = Vec::new();
            for a in &s1 {
                for b in &s1 {
                    all.push(vec![a.clone(), b.clone()]);
                    for c in &s1 {
                        all.push(vec![a.clone(), b.clone(), c.clone()]);
                    }
                }
            }
            if len >= 2 {
                for a in &s2 {
                    for b in &s2 {
                        if a.len() > 1 || b.len() > 1 {
                            all.push(vec![a.clone(), b.clone()]);
                        }
                    }
                }
            }
            for (i, l) in all.into_iter().enumerate() {
                if i % sn == si {
                    lists.push(l);
                }
            }
        } else {
            for (i, s) in strings_upto(len).into_iter().enumerate() {
                if i % sn == si {
                    st.strings += 1;
                    lists.push(vec![s]);
                }
            }
        }
        check_lists(&lists, &mut agg, &mut st);
    }
    agg.print();
    println!(
        "{{\"type\":\"summary\",\"strings\":{},\"lists\":{},\"bash_checked\":{},\"style_dollar\":{},\"style_single\":{},\"style_bare\":{}}}",
        st.strings, st.lists, st.bash_checked, st.dollar, st.single, st.bare
    );
    let _ = OsStr::new("");
}
