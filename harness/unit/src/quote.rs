//! C17: shell quoting is lossless.
//!
//! fcv-unit quote --len L --shard I/N [--lists]      enumerate
//! fcv-unit quote --one <hex>[,<hex>...]             check one argument list
//!
//! fcv-unit quote --templates --shard I/N           option / assignment shaped arguments
//!
//! Alphabet: 36 symbols (troublesome bytes / characters incl. two C1 controls, every ASCII character bash gives a
//! meaning to, '-').
//! Oracles, for every rendering fclones prints (join = Arg::quote per argument, quote(), Path::quote()):
//!   fclones' split() returns the list; bash (run in a directory of glob bait) returns the list.

use crate::util::*;
use fclones::verif::arg::{join, quote, split, Arg};
use std::ffi::{OsStr, OsString};
use std::io::Write;
use std::os::unix::ffi::{OsStrExt, OsStringExt};
use std::panic::catch_unwind;
use std::process::{Command, Stdio};

/// The 20 symbols of the first version (bytes / characters that need care).
pub fn core_alphabet() -> Vec<Vec<u8>> {
    vec![
        b"a".to_vec(),
        b" ".to_vec(),
        b"\t".to_vec(),
        b"\n".to_vec(),
        b"'".to_vec(),
        b"\"".to_vec(),
        b"\\".to_vec(),
        b"$".to_vec(),
        b"`".to_vec(),
        b"*".to_vec(),
        b"#".to_vec(),
        b"~".to_vec(),
        b"=".to_vec(),
        b"!".to_vec(),
        "ż".as_bytes().to_vec(),
        "€".as_bytes().to_vec(),
        "\u{a0}".as_bytes().to_vec(),
        vec![0x7f],
        vec![0xff],
        vec![0xc3],
    ]
}

/// Core alphabet plus every other ASCII character that bash gives a meaning to somewhere in a word
/// (globbing, brace expansion, operators, redirection, grouping) and '-' (option-shaped arguments).
pub fn alphabet() -> Vec<Vec<u8>> {
    let mut a = core_alphabet();
    for c in b"?[]{},;&|<>()-" {
        a.push(vec![*c]);
    }
    // C1 control characters as valid UTF-8 (NEL U+0085, CSI U+009B)
    a.push("\u{85}".as_bytes().to_vec());
    a.push("\u{9b}".as_bytes().to_vec());
    a
}

fn strings_over(alpha: &[Vec<u8>], len: usize) -> Vec<Vec<u8>> {
    let mut out: Vec<Vec<u8>> = Vec::new();
    let mut cur: Vec<Vec<u8>> = vec![vec![]];
    for _ in 0..len {
        let mut next = Vec::with_capacity(cur.len() * alpha.len());
        for s in &cur {
            for a in alpha {
                let mut t = s.clone();
                t.extend_from_slice(a);
                next.push(t);
            }
        }
        out.extend(next.iter().cloned());
        cur = next;
    }
    out
}

/// Directory in which bash runs: it holds files that unquoted glob characters would match ("bait"), so that a
/// word printed without quotes decodes to something else than itself.
static DIR_USED: std::sync::atomic::AtomicBool = std::sync::atomic::AtomicBool::new(false);

fn bait_dir() -> &'static std::path::Path {
    DIR_USED.store(true, std::sync::atomic::Ordering::SeqCst);
    static DIR: std::sync::OnceLock<std::path::PathBuf> = std::sync::OnceLock::new();
    DIR.get_or_init(|| {
        let d = std::env::temp_dir().join(format!("fcv-bait-{}", std::process::id()));
        let _ = std::fs::remove_dir_all(&d);
        std::fs::create_dir_all(&d).expect("bait dir");
        let plain: Vec<&[u8]> = vec![b"a", b"=", "ż".as_bytes(), "€".as_bytes(), b"#", b"!", b"~", b"-", b","];
        let mut names: Vec<Vec<u8>> = vec![b"aaa".to_vec(), b"aaaa".to_vec()];
        for x in &plain {
            names.push(x.to_vec());
            for y in &plain {
                let mut n = x.to_vec();
                n.extend_from_slice(y);
                names.push(n);
            }
        }
        for n in names {
            let _ = std::fs::write(d.join(OsStr::from_bytes(&n)), b"bait");
        }
        d
    })
}

fn strings_upto(len: usize) -> Vec<Vec<u8>> {
    strings_over(&alphabet(), len)
}

const SENTINEL: &[u8] = b"\x01\x02";

/// Runs bash once on a batch of quoted argument lists; returns the decoded lists, or None if
/// bash failed as a whole (syntax error somewhere in the batch).
fn bash_batch(lines: &[String]) -> Option<Vec<Vec<Vec<u8>>>> {
    let mut script = String::new();
    for l in lines {
        script.push_str("printf '%s\\0' ");
        script.push_str(l);
        script.push_str("\nprintf '\\1\\2\\0'\n");
    }
    let mut child = Command::new("bash")
        .arg("--norc")
        .arg("--noprofile")
        .arg("-s")
        .env_clear()
        .env("HOME", "/fcv-home-sentinel")
        .env("PATH", "/usr/bin:/bin")
        .env("LC_ALL", "C.UTF-8")
        .current_dir(bait_dir())
        .stdin(Stdio::piped())
        .stdout(Stdio::piped())
        .stderr(Stdio::null())
        .spawn()
        .expect("cannot spawn bash");
    let mut stdin = child.stdin.take().unwrap();
    let sc = script.into_bytes();
    let writer = std::thread::spawn(move || {
        let _ = stdin.write_all(&sc);
    });
    let out = child.wait_with_output().expect("bash wait");
    let _ = writer.join();
    let mut res = Vec::new();
    let mut cur = Vec::new();
    let data = out.stdout;
    if !data.is_empty() && *data.last().unwrap() != 0 {
        return None;
    }
    for tok in data.split(|b| *b == 0) {
        if tok == SENTINEL {
            res.push(std::mem::take(&mut cur));
        } else {
            cur.push(tok.to_vec());
        }
    }
    // the split leaves one trailing empty token
    if cur.len() != 1 || !cur[0].is_empty() {
        return None;
    }
    if res.len() != lines.len() {
        return None;
    }
    Some(res)
}

fn bash_decode(lines: &[String]) -> Vec<Option<Vec<Vec<u8>>>> {
    if let Some(r) = bash_batch(lines) {
        return r.into_iter().map(Some).collect();
    }
    if lines.len() == 1 {
        return vec![None];
    }
    let mid = lines.len() / 2;
    let mut a = bash_decode(&lines[..mid]);
    a.extend(bash_decode(&lines[mid..]));
    a
}

fn style_of(q: &str) -> &'static str {
    if q.starts_with("$'") {
        "dollar"
    } else if q.starts_with('\'') {
        "single"
    } else {
        "bare"
    }
}

/// True if the *quoted* form contains a multi-byte character (invalid bytes are written as
/// ASCII escapes and do not count).
fn has_multibyte(q: &str) -> bool {
    q.chars().any(|c| c.len_utf8() > 1)
}

fn features(kind: &str, list: &[Vec<u8>], quoted: &[String]) -> String {
    let any_dollar = quoted.iter().any(|q| style_of(q) == "dollar");
    let styles: Vec<&str> = {
        let mut v: Vec<&str> = quoted.iter().map(|q| style_of(q)).collect();
        v.sort();
        v.dedup();
        v
    };
    let mb_dollar = quoted.iter().any(|q| style_of(q) == "dollar" && has_multibyte(q));
    // In a joined line, a multi-byte character anywhere before the end of a $'..' word shifts it.
    let mb_before_dollar = any_dollar && {
        let mut seen_mb = false;
        let mut hit = false;
        for q in quoted {
            if has_multibyte(q) {
                seen_mb = true;
            }
            if style_of(q) == "dollar" && seen_mb {
                hit = true;
            }
        }
        hit
    };
    let tilde = list.iter().zip(quoted).any(|(s, q)| s.first() == Some(&b'~') && style_of(q) == "bare");
    format!(
        "\"kind\":{},\"styles\":{},\"multibyte_in_dollar_quoted\":{},\"multibyte_before_dollar_quote_end\":{},\"leading_tilde_unquoted\":{}",
        jstr(kind),
        jstr(&styles.join("+")),
        mb_dollar,
        mb_before_dollar || mb_dollar,
        tilde
    )
}

fn example(list: &[Vec<u8>], line: &str, got: &str) -> String {
    format!(
        "\"input_hex\":{},\"quoted\":{},\"got\":{}",
        jstr(&list.iter().map(|s| hex(s)).collect::<Vec<_>>().join(",")),
        jstr(line),
        jstr(got)
    )
}

struct Stats {
    strings: u64,
    lists: u64,
    bash_checked: u64,
    dollar: u64,
    single: u64,
    bare: u64,
}

/// Checks a set of argument lists. Every rendering fclones can print for a list - `join` (Arg::quote per
/// argument), and for single arguments the free function `quote` and `Path::quote` when they print something
/// else - is decoded by fclones' own splitter and by bash and must give back the list.
fn check_lists(lists: &[Vec<Vec<u8>>], agg: &mut Agg, st: &mut Stats) {
    // (index of the list, rendering, printed line, quoted words for the feature vector)
    let mut items: Vec<(usize, &'static str, String, Vec<String>)> = Vec::with_capacity(lists.len());
    for (li, list) in lists.iter().enumerate() {
        st.lists += 1;
        let args: Vec<Arg> = list
            .iter()
            .map(|s| Arg::from(OsString::from_vec(s.clone())))
            .collect();
        let quoted: Vec<String> = list
            .iter()
            .map(|s| quote(OsString::from_vec(s.clone())))
            .collect();
        for q in &quoted {
            match style_of(q) {
                "dollar" => st.dollar += 1,
                "single" => st.single += 1,
                _ => st.bare += 1,
            }
        }
        let line = join(&args);
        if list.len() == 1 {
            if quoted[0] != line {
                items.push((li, "quote", quoted[0].clone(), quoted.clone()));
            }
            if !list[0].contains(&b'/') {
                let p = fclones::Path::from(OsString::from_vec(list[0].clone()));
                let pq = p.quote();
                if pq != line && pq != quoted[0] {
                    items.push((li, "path_quote", pq, quoted.clone()));
                }
            }
        }
        items.push((li, "join", line, quoted));
    }
    for (li, rendering, line, quoted) in &items {
        let list = &lists[*li];
        let feat = |kind: &str| format!("{},\"rendering\":{}", features(kind, list, quoted), jstr(rendering));
        // own splitter
        let l2 = line.clone();
        let r = catch_unwind(move || split(&l2));
        match r {
            Err(_) => agg.add(feat("split_panic"), || example(list, line, "panic")),
            Ok(Err(e)) => agg.add(feat("split_error"), || example(list, line, &e.to_string())),
            Ok(Ok(v)) => {
                let got: Vec<Vec<u8>> = v.iter().map(|a| a.as_os_str().as_bytes().to_vec()).collect();
                if &got != list {
                    agg.add(feat("split_mismatch"), || {
                        example(list, line, &got.iter().map(|s| hex(s)).collect::<Vec<_>>().join(","))
                    });
                }
            }
        }
    }
    let lines: Vec<String> = items.iter().map(|it| it.2.clone()).collect();
    for (chunk_i, chunk) in lines.chunks(2000).enumerate() {
        let dec = bash_decode(chunk);
        for (j, d) in dec.into_iter().enumerate() {
            let idx = chunk_i * 2000 + j;
            let (li, rendering, line, quoted) = &items[idx];
            let list = &lists[*li];
            let feat = |kind: &str| format!("{},\"rendering\":{}", features(kind, list, quoted), jstr(rendering));
            if *rendering == "join" {
                st.bash_checked += 1;
            }
            match d {
                None => agg.add(feat("bash_error"), || example(list, line, "bash failed")),
                Some(got) => {
                    if &got != list {
                        agg.add(feat("bash_mismatch"), || {
                            example(list, line, &got.iter().map(|s| hex(s)).collect::<Vec<_>>().join(","))
                        });
                    }
                }
            }
        }
    }
}

/// `quote --split-file FILE`: decodes every line of FILE (a dry-run script, a `# Command:` line) with fclones' own
/// splitter and with bash (in the bait directory); prints one JSON object per line:
/// {"type":"line","own":[hex..]|null,"own_error":..,"bash":[hex..]|null}
fn split_file(path: &str) {
    let data = std::fs::read(path).expect("read script");
    let text = String::from_utf8_lossy(&data).to_string();
    let lines: Vec<String> = text.split('\n').filter(|l| !l.trim().is_empty()).map(|l| l.to_string()).collect();
    let bash = bash_decode(&lines);
    for (l, b) in lines.iter().zip(bash.into_iter()) {
        let l2 = l.clone();
        let own = catch_unwind(move || split(&l2));
        let (own_s, err_s) = match own {
            Ok(Ok(v)) => (
                format!("[{}]", v.iter().map(|a| jstr(&hex(a.as_os_str().as_bytes()))).collect::<Vec<_>>().join(",")),
                "null".to_string(),
            ),
            Ok(Err(e)) => ("null".to_string(), jstr(&e.to_string())),
            Err(_) => ("null".to_string(), jstr("panic")),
        };
        let bash_s = match b {
            Some(v) => format!("[{}]", v.iter().map(|a| jstr(&hex(a))).collect::<Vec<_>>().join(",")),
            None => "null".to_string(),
        };
        println!("{{\"type\":\"line\",\"text\":{},\"own\":{},\"own_error\":{},\"bash\":{}}}", jstr(l), own_s, err_s, bash_s);
    }
    if DIR_USED.load(std::sync::atomic::Ordering::SeqCst) {
        let _ = std::fs::remove_dir_all(bait_dir());
    }
    println!("{{\"type\":\"summary\",\"lines\":{}}}", lines.len());
}

pub fn main(args: &[String]) {
    if let Some(f) = arg_val(args, "--split-file") {
        split_file(f);
        return;
    }
    let mut agg = Agg::default();
    let mut st = Stats { strings: 0, lists: 0, bash_checked: 0, dollar: 0, single: 0, bare: 0 };
    if let Some(one) = arg_val(args, "--one") {
        let list: Vec<Vec<u8>> = one.split(',').map(unhex).collect();
        check_lists(&[list], &mut agg, &mut st);
    } else {
        let len: usize = arg_val(args, "--len").unwrap_or("3").parse().unwrap();
        let shard = arg_val(args, "--shard").unwrap_or("0/1");
        let (si, sn) = shard.split_once('/').unwrap();
        let (si, sn): (usize, usize) = (si.parse().unwrap(), sn.parse().unwrap());
        let mut lists: Vec<Vec<Vec<u8>>> = Vec::new();
        if args.iter().any(|a| a == "--templates") {
            // option-shaped and assignment-shaped arguments around every pair of strings of <= 1 symbol
            let mut s1 = strings_upto(1);
            s1.insert(0, Vec::new());
            let cat = |parts: &[&[u8]]| -> Vec<u8> { parts.concat() };
            let mut all: Vec<Vec<Vec<u8>>> = Vec::new();
            for x in &s1 {
                for y in &s1 {
                    for t in [
                        cat(&[b"-", x, y]),
                        cat(&[b"--", x, y]),
                        cat(&[b"--", x, b"=", y]),
                        cat(&[b"--a", x, b"=", y]),
                        cat(&[b"-", x, b"=", y]),
                        cat(&[x, b"=", y]),
                        cat(&[b"a", x, b"a", y]),
                        cat(&[b"/", x, b"/", y]),
                    ] {
                        all.push(vec![t.clone()]);
                        all.push(vec![b"--".to_vec(), t]);
                    }
                }
            }
            for (i, l) in all.into_iter().enumerate() {
                if i % sn == si {
                    st.strings += 1;
                    lists.push(l);
                }
            }
        } else if args.iter().any(|a| a == "--lists") {
            // all lists of <= 3 strings of length <= 1 (full alphabet), all pairs of strings of length <= 2 (core
            // alphabet unless --alpha full)
            let s1 = strings_upto(1);
            let s2 = if arg_val(args, "--alpha") == Some("full") { strings_upto(2) } else { strings_over(&core_alphabet(), 2) };
            let mut all: Vec<Vec<Vec<u8>>> = Vec::new();
            for a in &s1 {
                for b in &s1 {
                    all.push(vec![a.clone(), b.clone()]);
                    for c in &s1 {
                        all.push(vec![a.clone(), b.clone(), c.clone()]);
                    }
                }
            }
            if len >= 2 {
                for a in &s2 {
                    for b in &s2 {
                        if a.len() > 1 || b.len() > 1 {
                            all.push(vec![a.clone(), b.clone()]);
                        }
                    }
                }
            }
            for (i, l) in all.into_iter().enumerate() {
                if i % sn == si {
                    lists.push(l);
                }
            }
        } else {
            for (i, s) in strings_upto(len).into_iter().enumerate() {
                if i % sn == si {
                    st.strings += 1;
                    lists.push(vec![s]);
                }
            }
        }
        check_lists(&lists, &mut agg, &mut st);
    }
    if DIR_USED.load(std::sync::atomic::Ordering::SeqCst) {
        let _ = std::fs::remove_dir_all(bait_dir());
    }
    agg.print();
    println!(
        "{{\"type\":\"summary\",\"strings\":{},\"lists\":{},\"bash_checked\":{},\"style_dollar\":{},\"style_single\":{},\"style_bare\":{}}}",
        st.strings, st.lists, st.bash_checked, st.dollar, st.single, st.bare
    );
    let _ = OsStr::new("");
}
