//! C16: globs match as documented; directory pruning is conservative.
//!
//! fcv-unit glob --tokens K --pathlen L --shard I/N       enumerate globs whose first token is in the shard
//! fcv-unit glob --one <glob> [--ic]                      check one glob against all paths (L from --pathlen)
//!
//! Oracle 1: independent backtracking matcher (documented semantics) == Pattern::matches.
//! Oracle 2: every ancestor directory of a matching path passes matches_partially / matches_dir.
//! Oracle 3: with the glob as --exclude, a directory is refused only if it (or an ancestor) is itself
//!           fully matched, i.e. no non-excluded file lies below a refused directory otherwise.

use crate::util::*;
use fclones::verif::pattern::{Pattern, PatternOpts};
use fclones::verif::selector::PathSelector;
use std::panic::{catch_unwind, AssertUnwindSafe};

#[derive(Clone, Debug, PartialEq)]
enum Tok {
    Lit(char),
    Any1,
    Star,
    DStar,
    Sep,
    Class(Vec<char>, bool), // chars, negated
    Alts(Vec<&'static str>), // one of several literal strings
    Seqs(Vec<Vec<Tok>>),     // one of several token sequences (alternatives that contain wildcards)
    Opt(char),
    Plus(char),
    Many(char),
}

/// `--alpha cls`: the token alphabet is the class-centred one below and the paths use PATH_ALPHABET_CLS.
static CLS_MODE: std::sync::atomic::AtomicBool = std::sync::atomic::AtomicBool::new(false);

/// Bracket expressions whose members are characters that mean something inside a character class of the regular
/// expression syntax the glob is translated to (`&&`, `~~`, `[`, `^`), ranges, and glob wildcards as members. The
/// documentation says: "matches one of the characters or character ranges given in the square brackets".
fn token_alphabet_cls() -> Vec<(&'static str, Tok, &'static str)> {
    vec![
        ("a", Tok::Lit('a'), "lit"),
        ("&", Tok::Lit('&'), "lit"),
        ("~", Tok::Lit('~'), "lit"),
        ("/", Tok::Sep, "sep"),
        ("*", Tok::Star, "star"),
        ("?", Tok::Any1, "qmark"),
        ("[a-b]", Tok::Class(vec!['a', 'b'], false), "class_range"),
        ("[!a-b]", Tok::Class(vec!['a', 'b'], true), "negclass_range"),
        ("[a&&b]", Tok::Class(vec!['a', '&', 'b'], false), "class_amp"),
        ("[!a&&b]", Tok::Class(vec!['a', '&', 'b'], true), "negclass_amp"),
        ("[&&a]", Tok::Class(vec!['&', 'a'], false), "class_amp"),
        ("[a~~b]", Tok::Class(vec!['a', '~', 'b'], false), "class_tilde"),
        ("[[a]", Tok::Class(vec!['[', 'a'], false), "class_bracket"),
        ("[a[]", Tok::Class(vec!['a', '['], false), "class_bracket"),
        ("[a^]", Tok::Class(vec!['a', '^'], false), "class_caret"),
        ("[.*]", Tok::Class(vec!['.', '*'], false), "class_wild"),
    ]
}

/// `--alpha alt`: alternation-centred alphabet. Alternatives that are prefixes of one another, in both orders (the
/// shorter one first / last), alternatives sharing a prefix, and one alternative that continues into a sub-directory.
static ALT_MODE: std::sync::atomic::AtomicBool = std::sync::atomic::AtomicBool::new(false);

fn token_alphabet_alt() -> Vec<(&'static str, Tok, &'static str)> {
    vec![
        ("a", Tok::Lit('a'), "lit"),
        ("b", Tok::Lit('b'), "lit"),
        ("-", Tok::Lit('-'), "lit_meta"),
        ("/", Tok::Sep, "sep"),
        ("*", Tok::Star, "star"),
        ("**", Tok::DStar, "dstar"),
        ("{ab,a}", Tok::Alts(vec!["ab", "a"]), "alt_prefix_last"),
        ("{a,ab}", Tok::Alts(vec!["a", "ab"]), "alt_prefix_first"),
        ("@(ab|a)", Tok::Alts(vec!["ab", "a"]), "ext_prefix_last"),
        ("{ab-,aba,ab}", Tok::Alts(vec!["ab-", "aba", "ab"]), "alt_prefix_last"),
        ("{ab,a-}", Tok::Alts(vec!["ab", "a-"]), "alt_common_prefix"),
        ("{a/b,a}", Tok::Seqs(vec![vec![Tok::Lit('a'), Tok::Sep, Tok::Lit('b')], vec![Tok::Lit('a')]]), "alt_sep_inside"),
    ]
}

const PATH_ALPHABET_ALT: [char; 4] = ['a', 'b', '-', '/'];

const PATH_ALPHABET_CLS: [char; 9] = ['a', 'b', '&', '~', '[', '^', '.', '*', '/'];

/// (source text, semantic token, kind name)
fn token_alphabet() -> Vec<(&'static str, Tok, &'static str)> {
    if CLS_MODE.load(std::sync::atomic::Ordering::Relaxed) {
        return token_alphabet_cls();
    }
    if ALT_MODE.load(std::sync::atomic::Ordering::Relaxed) {
        return token_alphabet_alt();
    }
    vec![
        ("a", Tok::Lit('a'), "lit"),
        ("b", Tok::Lit('b'), "lit"),
        (".", Tok::Lit('.'), "lit_meta"),
        ("-", Tok::Lit('-'), "lit_meta"),
        ("+", Tok::Lit('+'), "lit_meta"),
        ("(", Tok::Lit('('), "lit_meta"),
        ("$", Tok::Lit('$'), "lit_dollar"),
        ("ż", Tok::Lit('ż'), "lit_multibyte"),
        ("?", Tok::Any1, "qmark"),
        ("*", Tok::Star, "star"),
        ("**", Tok::DStar, "dstar"),
        ("/", Tok::Sep, "sep"),
        ("[ab]", Tok::Class(vec!['a', 'b'], false), "class"),
        ("[!a]", Tok::Class(vec!['a'], true), "negclass"),
        ("{a,b}", Tok::Class(vec!['a', 'b'], false), "alt"),
        ("@(a|b)", Tok::Class(vec!['a', 'b'], false), "ext_once"),
        ("?(a)", Tok::Opt('a'), "ext_opt"),
        ("+(a)", Tok::Plus('a'), "ext_plus"),
        ("*(a)", Tok::Many('a'), "ext_many"),
        // the delimiters of one bracket family are ordinary characters inside the other family
        ("{a,(}", Tok::Class(vec!['a', '('], false), "alt_paren_inside"),
        ("@(a|,)", Tok::Class(vec!['a', ','], false), "ext_comma_inside"),
        ("{b,a|b}", Tok::Alts(vec!["b", "a|b"]), "alt_bar_inside"),
        // alternatives that contain a separator and a wildcard; the group closes the pattern text
        ("{b,a/**}", Tok::Seqs(vec![vec![Tok::Lit('b')], vec![Tok::Lit('a'), Tok::Sep, Tok::DStar]]), "alt_wild_inside"),
        ("@(b|a/*)", Tok::Seqs(vec![vec![Tok::Lit('b')], vec![Tok::Lit('a'), Tok::Sep, Tok::Star]]), "ext_wild_inside"),
        ("\\*", Tok::Lit('*'), "esc"),
        ("\\?", Tok::Lit('?'), "esc"),
    ]
}

const PATH_ALPHABET: [char; 9] = ['a', 'b', 'ż', '.', '-', 'A', '/', '$', '*'];

/// Second, small path alphabet: control characters that are legal in file names (line feed, tab) and a
/// non-ASCII upper-case letter.
const PATH_ALPHABET_CTL: [char; 6] = ['a', 'b', '\n', '\t', '/', 'Ż'];   // Ż: upper case outside ASCII (token ż with -i)

fn paths_upto(len: usize) -> Vec<String> {
    paths_over(&PATH_ALPHABET, len)
}

fn paths_over(alphabet: &[char], len: usize) -> Vec<String> {
    let mut out = Vec::new();
    let mut cur: Vec<String> = vec![String::new()];
    for _ in 0..len {
        let mut next = Vec::new();
        for s in &cur {
            for c in alphabet.iter().copied() {
                if c == '/' && s.ends_with('/') {
                    continue; // no empty components
                }
                let mut t = s.clone();
                t.push(c);
                next.push(t);
            }
        }
        for s in &next {
            // "." and ".." components are normalised away by fclones' Path type (and by the OS):
            // they are not file names, so such strings are not paths of files.
            if !s.ends_with('/') && !s.split('/').any(|c| c == "." || c == "..") {
                out.push(s.clone());
            }
        }
        cur = next;
    }
    out
}

fn fold(c: char, ic: bool) -> char {
    if ic {
        c.to_lowercase().next().unwrap()
    } else {
        c
    }
}

/// Reference matcher. `neg_sep`: whether a negated class may match '/'
/// (the documentation does not say; both readings are accepted by the oracle).
fn rmatch(t: &[Tok], p: &[char], ic: bool, neg_sep: bool) -> bool {
    if t.is_empty() {
        return p.is_empty();
    }
    match &t[0] {
        Tok::Lit(c) => !p.is_empty() && fold(p[0], ic) == fold(*c, ic) && rmatch(&t[1..], &p[1..], ic, neg_sep),
        Tok::Sep => !p.is_empty() && p[0] == '/' && rmatch(&t[1..], &p[1..], ic, neg_sep),
        Tok::Any1 => !p.is_empty() && p[0] != '/' && rmatch(&t[1..], &p[1..], ic, neg_sep),
        Tok::Star => {
            let mut k = 0;
            loop {
                if rmatch(&t[1..], &p[k..], ic, neg_sep) {
                    return true;
                }
                if k < p.len() && p[k] != '/' {
                    k += 1;
                } else {
                    return false;
                }
            }
        }
        Tok::DStar => (0..=p.len()).any(|k| rmatch(&t[1..], &p[k..], ic, neg_sep)),
        Tok::Class(set, neg) => {
            if p.is_empty() {
                return false;
            }
            let c = fold(p[0], ic);
            let inset = set.iter().any(|x| fold(*x, ic) == c);
            let ok = if *neg {
                !inset && (p[0] != '/' || neg_sep)
            } else {
                inset
            };
            ok && rmatch(&t[1..], &p[1..], ic, neg_sep)
        }
        Tok::Alts(alts) => alts.iter().any(|alt| {
            let ac: Vec<char> = alt.chars().collect();
            p.len() >= ac.len()
                && ac.iter().zip(p.iter()).all(|(x, y)| fold(*x, ic) == fold(*y, ic))
                && rmatch(&t[1..], &p[ac.len()..], ic, neg_sep)
        }),
        Tok::Seqs(alts) => alts.iter().any(|alt| {
            let mut seq: Vec<Tok> = alt.clone();
            seq.extend_from_slice(&t[1..]);
            rmatch(&seq, p, ic, neg_sep)
        }),
        Tok::Opt(c) => {
            rmatch(&t[1..], p, ic, neg_sep)
                || (!p.is_empty() && fold(p[0], ic) == fold(*c, ic) && rmatch(&t[1..], &p[1..], ic, neg_sep))
        }
        Tok::Plus(c) => {
            let mut k = 0;
            while k < p.len() && fold(p[k], ic) == fold(*c, ic) {
                k += 1;
                if rmatch(&t[1..], &p[k..], ic, neg_sep) {
                    return true;
                }
            }
            false
        }
        Tok::Many(c) => {
            let mut k = 0;
            loop {
                if rmatch(&t[1..], &p[k..], ic, neg_sep) {
                    return true;
                }
                if k < p.len() && fold(p[k], ic) == fold(*c, ic) {
                    k += 1;
                } else {
                    return false;
                }
            }
        }
    }
}

struct GlobCase {
    src: String,
    toks: Vec<Tok>,
    kinds: Vec<&'static str>,
}

/// Token sequences whose concatenation would re-tokenise differently are skipped
/// (the other tokenisation is enumerated in its own right).
fn mergeable(prev: &str, next: &str) -> bool {
    let stars = |s: &str| s == "*" || s == "**";
    if stars(prev) && next.starts_with('*') {
        return true;
    }
    // "?(" "*(" "+(" would start an extended glob
    if next == "(" && (prev == "?" || prev == "*" || prev == "**" || prev == "+") {
        return true;
    }
    false
}

fn enumerate_globs(max_tokens: usize, first: Option<usize>, f: &mut dyn FnMut(&GlobCase)) {
    enumerate_globs_from(max_tokens, &first.map(|i| vec![i]).unwrap_or_default(), f)
}

/// All globs of at most `max_tokens` tokens that start with the given token indices.
fn enumerate_globs_from(max_tokens: usize, first: &[usize], f: &mut dyn FnMut(&GlobCase)) {
    let first: Option<Vec<usize>> = if first.is_empty() { None } else { Some(first.to_vec()) };
    let alpha = token_alphabet();
    fn rec(
        alpha: &[(&'static str, Tok, &'static str)],
        cur: &mut Vec<usize>,
        max: usize,
        f: &mut dyn FnMut(&GlobCase),
    ) {
        if !cur.is_empty() {
            let mut src = String::new();
            let mut toks = Vec::new();
            let mut kinds = Vec::new();
            for &i in cur.iter() {
                src.push_str(alpha[i].0);
                toks.push(alpha[i].1.clone());
                kinds.push(alpha[i].2);
            }
            f(&GlobCase { src, toks, kinds });
        }
        if cur.len() == max {
            return;
        }
        for i in 0..alpha.len() {
            if let Some(&last) = cur.last() {
                if mergeable(alpha[last].0, alpha[i].0) {
                    continue;
                }
            }
            cur.push(i);
            rec(alpha, cur, max, f);
            cur.pop();
        }
    }
    match first {
        Some(v) => {
            let mut cur = v;
            rec(&alpha, &mut cur, max_tokens, f);
        }
        None => {
            let mut cur = vec![];
            rec(&alpha, &mut cur, max_tokens, f);
        }
    }
}

fn literal_prefix_features(g: &GlobCase) -> (bool, bool) {
    // literal tokens before the first non-literal token
    let mut multibyte = false;
    let mut escaped = false;
    for (t, k) in g.toks.iter().zip(&g.kinds) {
        match t {
            Tok::Lit(c) => {
                if c.len_utf8() > 1 {
                    multibyte = true;
                }
                if *k != "lit" && *k != "lit_multibyte" {
                    escaped = true; // regex-escaped in the translated pattern
                }
            }
            Tok::Sep => {}
            _ => break,
        }
    }
    (multibyte, escaped)
}

/// Literal text of the glob before its first wildcard token.
fn literal_prefix(g: &GlobCase) -> String {
    let mut s = String::new();
    for t in &g.toks {
        match t {
            Tok::Lit(c) => s.push(*c),
            Tok::Sep => s.push('/'),
            _ => break,
        }
    }
    s
}

/// True iff refusing directory string `d` is exactly what mixing up byte and character counts in
/// the fixed-prefix comparison produces: the character-wise comparison accepts, the comparison
/// that takes `min(byte lengths)` *characters* of `d` rejects.
fn byte_char_mix_explains(lp: &str, d: &str, ic: bool) -> bool {
    let (lp, d) = if ic { (lp.to_lowercase(), d.to_lowercase()) } else { (lp.to_string(), d.to_string()) };
    let n_chars = std::cmp::min(lp.chars().count(), d.chars().count());
    let good: String = d.chars().take(n_chars).collect();
    let n_bytes = std::cmp::min(lp.len(), d.len());
    let bad: String = d.chars().take(n_bytes).collect();
    lp.starts_with(&good) && !lp.starts_with(&bad)
}

fn kinds_str(g: &GlobCase) -> String {
    let mut k: Vec<&str> = g.kinds.clone();
    k.sort();
    k.dedup();
    k.join("+")
}

struct Stats {
    globs: u64,
    rejected: u64,
    evals: u64,
    matches: u64,
    dir_checks: u64,
    excl_checks: u64,
    ambiguous: u64,
}

fn ancestors(abs: &str) -> Vec<&str> {
    // proper ancestor directories of an absolute path, excluding "/"
    let mut v = Vec::new();
    for (i, c) in abs.char_indices() {
        if c == '/' && i > 0 {
            v.push(&abs[..i]);
        }
    }
    v
}

fn check_glob(g: &GlobCase, ic: bool, paths: &[(String, Vec<char>)], agg: &mut Agg, st: &mut Stats) {
    st.globs += 1;
    let opts = || if ic { PatternOpts::case_insensitive() } else { PatternOpts::default() };
    let src = g.src.clone();
    let pat = match catch_unwind(|| Pattern::glob_with(&src, &opts())) {
        Ok(Ok(p)) => p,
        Ok(Err(e)) => {
            st.rejected += 1;
            // all tokens of the alphabet are documented constructs: a rejection is a violation
            agg.add(
                format!("\"kind\":\"glob_rejected\",\"token_kinds\":{},\"ignore_case\":{}", jstr(&kinds_str(g)), ic),
                || format!("\"glob\":{},\"error\":{}", jstr(&g.src), jstr(&e.to_string())),
            );
            return;
        }
        Err(_) => {
            agg.add(
                format!(
                    "\"kind\":\"glob_compile_panic\",\"trailing_dollar\":{},\"ignore_case\":{}",
                    matches!(g.toks.last(), Some(Tok::Lit('$'))),
                    ic
                ),
                || format!("\"glob\":{}", jstr(&g.src)),
            );
            return;
        }
    };
    let (mb, esc) = literal_prefix_features(g);
    let trailing_dollar = matches!(g.toks.last(), Some(Tok::Lit('$')));
    let is_abs = g.src.starts_with('/') || g.src.starts_with("**");
    let base = fclones::Path::from("/w");
    let inc = PathSelector::new(base.clone()).include_paths(vec![pat.clone()]);
    let exc = PathSelector::new(base).exclude_paths(vec![pat.clone()]);

    for (ps, pc) in paths {
        st.evals += 1;
        let e1 = rmatch(&g.toks, pc, ic, false);
        let e2 = rmatch(&g.toks, pc, ic, true);
        if e1 != e2 {
            st.ambiguous += 1;
        }
        let got = match catch_unwind(AssertUnwindSafe(|| pat.matches(ps))) {
            Ok(b) => b,
            Err(_) => {
                agg.add(
                    format!("\"kind\":\"match_panic\",\"token_kinds\":{},\"ignore_case\":{}", jstr(&kinds_str(g)), ic),
                    || format!("\"glob\":{},\"path\":{}", jstr(&g.src), jstr(ps)),
                );
                continue;
            }
        };
        if got != e1 && got != e2 {
            agg.add(
                format!(
                    "\"kind\":\"match_differs\",\"expected\":{},\"trailing_dollar\":{},\"token_kinds\":{},\"ignore_case\":{}",
                    e1, trailing_dollar, jstr(&kinds_str(g)), ic
                ),
                || format!("\"glob\":{},\"path\":{},\"got\":{}", jstr(&g.src), jstr(ps), got),
            );
        }
        if got {
            st.matches += 1;
            // Oracle 2a: string level
            for (i, c) in ps.char_indices() {
                if c == '/' && i > 0 {
                    let d = &ps[..=i];
                    st.dir_checks += 1;
                    let ok = catch_unwind(AssertUnwindSafe(|| pat.matches_partially(d))).unwrap_or(false);
                    if !ok {
                        agg.add(
                            format!(
                                "\"kind\":\"prune_false_negative\",\"level\":\"pattern\",\"prefix_has_multibyte\":{},\"byte_char_mix_explains\":{},\"escaped_char_in_prefix\":{},\"ignore_case\":{}",
                                mb, byte_char_mix_explains(&literal_prefix(g), d, ic), esc, ic
                            ),
                            || format!("\"glob\":{},\"path\":{},\"dir\":{}", jstr(&g.src), jstr(ps), jstr(d)),
                        );
                    }
                }
            }
        }
        // selector level: file at /w/<path> (relative patterns are anchored at /w) or <path> itself
        let abs = if ps.starts_with('/') { ps.clone() } else { format!("/w/{}", ps) };
        if is_abs != ps.starts_with('/') && !g.src.starts_with("**") {
            // relative pattern vs absolute path string (or vice versa): not a meaningful selector case
            continue;
        }
        let absp = fclones::Path::from(abs.as_str());
        if inc.matches_full_path(&absp) {
            for d in ancestors(&abs) {
                st.dir_checks += 1;
                if !inc.matches_dir(&fclones::Path::from(d)) {
                    agg.add(
                        format!(
                            "\"kind\":\"prune_false_negative\",\"level\":\"selector\",\"prefix_has_multibyte\":{},\"byte_char_mix_explains\":{},\"escaped_char_in_prefix\":{},\"ignore_case\":{}",
                            mb,
                            {
                                let lp = if is_abs { literal_prefix(g) } else { format!("/w/{}", literal_prefix(g)) };
                                byte_char_mix_explains(&lp, &format!("{}/", d), ic)
                            },
                            esc,
                            ic
                        ),
                        || format!("\"glob\":{},\"path\":{},\"dir\":{}", jstr(&g.src), jstr(&abs), jstr(d)),
                    );
                }
            }
        }
        if exc.matches_full_path(&absp) {
            // file is NOT excluded: every ancestor must be enterable unless the ancestor itself
            // (or one above it) is fully matched by the exclude pattern.
            for d in ancestors(&abs) {
                st.excl_checks += 1;
                let dp = fclones::Path::from(d);
                if !exc.matches_full_path(&dp) {
                    // the directory itself is excluded by a full match: what happens to its
                    // contents is not defined by the documentation ("don't care")
                    break;
                }
                if !exc.matches_dir(&dp) {
                    agg.add(
                        format!(
                            "\"kind\":\"exclude_prune\",\"pattern_ends_with_dstar\":{},\"ignore_case\":{}",
                            g.src.ends_with("**"), ic
                        ),
                        || format!("\"glob\":{},\"path\":{},\"dir\":{}", jstr(&g.src), jstr(&abs), jstr(d)),
                    );
                }
            }
        }
    }
}

/// Two include patterns at once (`--path G1 --path G2`): a path is selected iff one of them matches it, and every
/// ancestor directory of a selected path must be enterable (a directory may be needed by one pattern only).
fn check_pair(g1: &GlobCase, g2: &GlobCase, ic: bool, paths: &[(String, Vec<char>)], agg: &mut Agg, st: &mut Stats) {
    let opts = || if ic { PatternOpts::case_insensitive() } else { PatternOpts::default() };
    let (p1, p2) = match (Pattern::glob_with(&g1.src, &opts()), Pattern::glob_with(&g2.src, &opts())) {
        (Ok(a), Ok(b)) => (a, b),
        _ => return,
    };
    st.globs += 1;
    let base = fclones::Path::from("/w");
    let inc = PathSelector::new(base).include_paths(vec![p1, p2]);
    let abs1 = g1.src.starts_with('/') || g1.src.starts_with("**");
    let abs2 = g2.src.starts_with('/') || g2.src.starts_with("**");
    for (ps, pc) in paths {
        if ps.starts_with('/') {
            continue; // relative path strings only: files at /w/<path>
        }
        st.evals += 1;
        let abs = format!("/w/{}", ps);
        let absc: Vec<char> = abs.chars().collect();
        let m = |g: &GlobCase, is_abs: bool, neg: bool| if is_abs { rmatch(&g.toks, &absc, ic, neg) } else { rmatch(&g.toks, pc, ic, neg) };
        let e_lo = (m(g1, abs1, false) && m(g1, abs1, true)) || (m(g2, abs2, false) && m(g2, abs2, true));
        let e_hi = m(g1, abs1, false) || m(g1, abs1, true) || m(g2, abs2, false) || m(g2, abs2, true);
        let absp = fclones::Path::from(abs.as_str());
        let got = inc.matches_full_path(&absp);
        if (got && !e_hi) || (!got && e_lo) {
            agg.add(
                format!("\"kind\":\"pair_match_differs\",\"expected\":{},\"ignore_case\":{}", e_lo, ic),
                || format!("\"glob\":{},\"glob2\":{},\"path\":{},\"got\":{}", jstr(&g1.src), jstr(&g2.src), jstr(&abs), got),
            );
        }
        if got {
            st.matches += 1;
            for d in ancestors(&abs) {
                st.dir_checks += 1;
                if !inc.matches_dir(&fclones::Path::from(d)) {
                    // is the refusal explained by the known byte/character mix, for a pattern that matches the path?
                    let explains = |g: &GlobCase, is_abs: bool| {
                        let matches = m(g, is_abs, false) || m(g, is_abs, true);
                        let lp = if is_abs { literal_prefix(g) } else { format!("/w/{}", literal_prefix(g)) };
                        matches && literal_prefix_features(g).0 && byte_char_mix_explains(&lp, &format!("{}/", d), ic)
                    };
                    let bcm = explains(g1, abs1) || explains(g2, abs2);
                    let mb = literal_prefix_features(g1).0 || literal_prefix_features(g2).0;
                    agg.add(
                        format!("\"kind\":\"prune_false_negative\",\"level\":\"selector_two_patterns\",\"prefix_has_multibyte\":{},\"byte_char_mix_explains\":{},\"ignore_case\":{}", mb, bcm, ic),
                        || format!("\"glob\":{},\"glob2\":{},\"path\":{},\"dir\":{}", jstr(&g1.src), jstr(&g2.src), jstr(&abs), jstr(d)),
                    );
                }
            }
        }
    }
}

/// Files of the fixed tree used by the command-line cross-check (relative to its root). Directory names
/// (a, A, aa) and file names are disjoint.
const CLI_FILES: &[&str] = &[
    "b", "B", "ab", "a.b", "a-b", "a/b", "a/B", "a/ab", "a/a/b", "a/a/a.b", "A/b", "A/ab", "aa/b", "aa/a/b", "ba", "bb",
];

/// Runs the real binary: `fclones group --rf-over 0 --min 0 -f fdupes <opt>=<glob> [-i] .` in `tree`; returns the
/// selected files relative to the tree, or Err(stderr).
fn cli_select(fclones_bin: &str, tree: &str, opt: &str, glob: &str, ic: bool) -> Result<Vec<String>, String> {
    let mut cmd = std::process::Command::new(fclones_bin);
    cmd.current_dir(tree)
        .env_clear()
        .env("PATH", "/usr/bin:/bin")
        .env("HOME", tree)
        .env("FCLONES_VERIF_DISK_KIND", "ssd")
        .args(["group", "--rf-over", "0", "--min", "0", "-f", "fdupes", "--no-ignore", "--hidden"])
        .arg(format!("--{opt}={glob}"));
    if ic {
        cmd.arg("-i");
    }
    cmd.arg(".");
    let out = cmd.output().map_err(|e| e.to_string())?;
    if !out.status.success() {
        return Err(String::from_utf8_lossy(&out.stderr).to_string());
    }
    let prefix = format!("{}/", tree.trim_end_matches('/'));
    let mut sel = Vec::new();
    for line in String::from_utf8_lossy(&out.stdout).lines() {
        if let Some(rel) = line.strip_prefix(&prefix) {
            sel.push(rel.to_string());
        }
    }
    sel.sort();
    Ok(sel)
}

/// Command-line cross-check: what `--name`, `--path`, `--exclude` (with and without `-i`) select on a real tree
/// must be what the reference matcher says. Binds option parsing / selector construction to Pattern semantics.
fn check_cli(g: &GlobCase, fclones_bin: &str, tree: &str, agg: &mut Agg, st: &mut Stats) {
    if Pattern::glob_with(&g.src, &PatternOpts::default()).is_err() {
        return; // rejected patterns are the in-process check's business
    }
    let is_abs = g.src.starts_with('/') || g.src.starts_with("**");
    for ic in [false, true] {
        for opt in ["name", "path", "exclude"] {
            st.globs += 1;
            let got = match cli_select(fclones_bin, tree, opt, &g.src, ic) {
                Ok(v) => v,
                Err(e) => {
                    agg.add(
                        format!("\"kind\":\"cli_failed\",\"option\":{},\"ignore_case\":{},\"token_kinds\":{}", jstr(opt), ic, jstr(&kinds_str(g))),
                        || format!("\"glob\":{},\"error\":{}", jstr(&g.src), jstr(&e.chars().rev().take(300).collect::<String>().chars().rev().collect::<String>())),
                    );
                    continue;
                }
            };
            let subject = |rel: &str| -> Vec<char> {
                if opt == "name" {
                    rel.rsplit('/').next().unwrap().chars().collect()
                } else if is_abs {
                    format!("{}/{}", tree.trim_end_matches('/'), rel).chars().collect()
                } else {
                    rel.chars().collect()
                }
            };
            let mut must: Vec<String> = Vec::new();
            let mut may: Vec<String> = Vec::new();
            for f in CLI_FILES {
                st.evals += 1;
                let subj = subject(f);
                let m1 = rmatch(&g.toks, &subj, ic, false);
                let m2 = rmatch(&g.toks, &subj, ic, true);
                let (sel1, sel2) = if opt == "exclude" { (!m1, !m2) } else { (m1, m2) };
                // --exclude: files below a directory that the glob matches fully are "don't care"
                let mut dir_excluded = false;
                if opt == "exclude" {
                    let mut d = String::new();
                    let comps: Vec<&str> = f.split('/').collect();
                    for c in &comps[..comps.len() - 1] {
                        if !d.is_empty() {
                            d.push('/');
                        }
                        d.push_str(c);
                        let ds = subject(&d);
                        if rmatch(&g.toks, &ds, ic, false) || rmatch(&g.toks, &ds, ic, true) {
                            dir_excluded = true;
                        }
                    }
                    if is_abs {
                        // an absolute pattern can also match the scanned root or a directory above it
                        let root = tree.trim_end_matches('/');
                        for (i, ch) in root.char_indices().chain(std::iter::once((root.len(), '/'))) {
                            if ch == '/' && i > 0 {
                                let ds: Vec<char> = root[..i].chars().collect();
                                if rmatch(&g.toks, &ds, ic, false) || rmatch(&g.toks, &ds, ic, true) {
                                    dir_excluded = true;
                                }
                            }
                        }
                    }
                }
                if dir_excluded || sel1 != sel2 {
                    may.push(f.to_string());
                } else if sel1 {
                    must.push(f.to_string());
                    st.matches += 1;
                }
            }
            let missing: Vec<&String> = must.iter().filter(|f| !got.contains(f)).collect();
            let extra: Vec<&String> = got.iter().filter(|f| !must.contains(f) && !may.contains(f)).collect();
            if !missing.is_empty() || !extra.is_empty() {
                agg.add(
                    format!(
                        "\"kind\":\"cli_selection_differs\",\"option\":{},\"ignore_case\":{},\"missing\":{},\"extra\":{},\"token_kinds\":{}",
                        jstr(opt), ic, !missing.is_empty(), !extra.is_empty(), jstr(&kinds_str(g))
                    ),
                    || format!("\"glob\":{},\"missing\":{},\"extra\":{}", jstr(&g.src), jstr(&format!("{missing:?}")), jstr(&format!("{extra:?}"))),
                );
            }
        }
    }
}

pub fn main(args: &[String]) {
    if args.iter().any(|a| a == "--cli") {
        let bin = arg_val(args, "--fclones").expect("--fclones");
        let tree = arg_val(args, "--tree").expect("--tree");
        for f in CLI_FILES {
            let p = std::path::Path::new(tree).join(f);
            std::fs::create_dir_all(p.parent().unwrap()).unwrap();
            std::fs::write(&p, b"x").unwrap();
        }
        let k: usize = arg_val(args, "--tokens").unwrap_or("2").parse().unwrap();
        let shard = arg_val(args, "--shard").unwrap_or("0/1");
        let (si, sn) = shard.split_once('/').unwrap();
        let (si, sn): (usize, usize) = (si.parse().unwrap(), sn.parse().unwrap());
        let mut agg = Agg::default();
        let mut st = Stats { globs: 0, rejected: 0, evals: 0, matches: 0, dir_checks: 0, excl_checks: 0, ambiguous: 0 };
        let mut i = 0usize;
        enumerate_globs(k, None, &mut |g| {
            let mine = i % sn == si;
            i += 1;
            if mine {
                check_cli(g, bin, tree, &mut agg, &mut st);
            }
        });
        agg.print();
        println!(
            "{{\"type\":\"summary\",\"globs\":{},\"rejected\":0,\"paths\":{},\"evaluations\":{},\"matches\":{},\"dir_checks\":0,\"exclude_checks\":0,\"ambiguous_negclass_sep\":0}}",
            st.globs, CLI_FILES.len(), st.evals, st.matches
        );
        return;
    }
    if args.iter().any(|a| a == "--pairs") {
        // pairs of globs of <= K tokens that can reach below a directory (contain '/' or '**')
        let k: usize = arg_val(args, "--tokens").unwrap_or("2").parse().unwrap();
        let pathlen: usize = arg_val(args, "--pathlen").unwrap_or("4").parse().unwrap();
        let shard = arg_val(args, "--shard").unwrap_or("0/1");
        let (si, sn) = shard.split_once('/').unwrap();
        let (si, sn): (usize, usize) = (si.parse().unwrap(), sn.parse().unwrap());
        let paths: Vec<(String, Vec<char>)> = paths_upto(pathlen).into_iter().map(|s| { let c = s.chars().collect(); (s, c) }).collect();
        let mut globs: Vec<GlobCase> = Vec::new();
        enumerate_globs(k, None, &mut |g| {
            if g.toks.iter().any(|t| matches!(t, Tok::Sep | Tok::DStar | Tok::Seqs(_))) {
                globs.push(GlobCase { src: g.src.clone(), toks: g.toks.clone(), kinds: g.kinds.clone() });
            }
        });
        let mut agg = Agg::default();
        let mut st = Stats { globs: 0, rejected: 0, evals: 0, matches: 0, dir_checks: 0, excl_checks: 0, ambiguous: 0 };
        let mut i = 0usize;
        for a in 0..globs.len() {
            for b in (a + 1)..globs.len() {
                let mine = i % sn == si;
                i += 1;
                if mine {
                    check_pair(&globs[a], &globs[b], false, &paths, &mut agg, &mut st);
                    check_pair(&globs[a], &globs[b], true, &paths, &mut agg, &mut st);
                }
            }
        }
        agg.print();
        println!(
            "{{\"type\":\"summary\",\"globs\":{},\"rejected\":0,\"paths\":{},\"evaluations\":{},\"matches\":{},\"dir_checks\":{},\"exclude_checks\":0,\"ambiguous_negclass_sep\":0}}",
            st.globs, paths.len(), st.evals, st.matches, st.dir_checks
        );
        return;
    }
    let pathlen: usize = arg_val(args, "--pathlen").unwrap_or("4").parse().unwrap();
    if arg_val(args, "--alpha") == Some("cls") {
        CLS_MODE.store(true, std::sync::atomic::Ordering::Relaxed);
    }
    if arg_val(args, "--alpha") == Some("alt") {
        ALT_MODE.store(true, std::sync::atomic::Ordering::Relaxed);
    }
    let all_paths = match arg_val(args, "--alpha") {
        Some("alt") => paths_over(&PATH_ALPHABET_ALT, pathlen),
        Some("ctl") => paths_over(&PATH_ALPHABET_CTL, pathlen),
        Some("cls") => paths_over(&PATH_ALPHABET_CLS, pathlen),
        _ => paths_upto(pathlen),
    };
    let paths: Vec<(String, Vec<char>)> = all_paths
        .into_iter()
        .map(|s| {
            let c = s.chars().collect();
            (s, c)
        })
        .collect();
    let mut agg = Agg::default();
    let mut st = Stats { globs: 0, rejected: 0, evals: 0, matches: 0, dir_checks: 0, excl_checks: 0, ambiguous: 0 };
    if let Some(one) = arg_val(args, "--one") {
        // re-tokenise greedily with the alphabet (longest source first)
        let mut alpha = token_alphabet();
        alpha.sort_by_key(|t| std::cmp::Reverse(t.0.len()));
        let mut rest = one;
        let mut g = GlobCase { src: one.to_string(), toks: vec![], kinds: vec![] };
        'outer: while !rest.is_empty() {
            for (s, t, k) in &alpha {
                if rest.starts_with(s) {
                    g.toks.push(t.clone());
                    g.kinds.push(k);
                    rest = &rest[s.len()..];
                    continue 'outer;
                }
            }
            eprintln!("cannot tokenise {one}");
            std::process::exit(2);
        }
        let ic = args.iter().any(|a| a == "--ic");
        check_glob(&g, ic, &paths, &mut agg, &mut st);
    } else {
        let k: usize = arg_val(args, "--tokens").unwrap_or("3").parse().unwrap();
        let shard = arg_val(args, "--shard").unwrap_or("0/1");
        let (si, sn) = shard.split_once('/').unwrap();
        let (si, sn): (usize, usize) = (si.parse().unwrap(), sn.parse().unwrap());
        let mut i = 0usize;
        // --first SRC: only globs whose first token is SRC (e.g. '/' for absolute patterns)
        // --first T1,T2,..: only globs that start with these tokens ("SLASH" stands for '/')
        let first: Vec<usize> = arg_val(args, "--first")
            .map(|list| {
                list.split(',')
                    .map(|src| {
                        let src = if src == "SLASH" { "/" } else { src };
                        token_alphabet().iter().position(|t| t.0 == src).unwrap_or_else(|| panic!("--first: unknown token {src}"))
                    })
                    .collect()
            })
            .unwrap_or_default();
        enumerate_globs_from(k, &first, &mut |g| {
            let mine = i % sn == si;
            i += 1;
            if mine {
                check_glob(g, false, &paths, &mut agg, &mut st);
                check_glob(g, true, &paths, &mut agg, &mut st);
            }
        });
    }
    agg.print();
    println!(
        "{{\"type\":\"summary\",\"globs\":{},\"rejected\":{},\"paths\":{},\"evaluations\":{},\"matches\":{},\"dir_checks\":{},\"exclude_checks\":{},\"ambiguous_negclass_sep\":{}}}",
        st.globs, st.rejected, paths.len(), st.evals, st.matches, st.dir_checks, st.excl_checks, st.ambiguous
    );
}
