//! C10: reports round-trip losslessly; truncated reports are rejected.
//!
//! fcv-unit report --names L --shard I/N      round trips (names, shapes, header fields)
//! fcv-unit report --truncate                 every truncation point of fixed reports
//! fcv-unit report --one-name <hex> | --one-basedir <hex> | --one-command <hex,hex>

use crate::util::*;
use chrono::{DateTime, FixedOffset};
use fallible_iterator::FallibleIterator;
use fclones::config::OutputFormat;
use fclones::report::{open_report, FileStats, ReportHeader, ReportWriter};
use fclones::verif::arg::Arg;
use fclones::{FileGroup, FileHash, FileLen, Path};
use std::ffi::OsString;
use std::io::Cursor;
use std::os::unix::ffi::OsStringExt;
use std::panic::{catch_unwind, AssertUnwindSafe};

fn name_alphabet() -> Vec<Vec<u8>> {
    vec![
        b"a".to_vec(),
        b" ".to_vec(),
        b"\t".to_vec(),
        b"\n".to_vec(),
        b"\r".to_vec(),
        b"'".to_vec(),
        b"\"".to_vec(),
        b"\\".to_vec(),
        b"#".to_vec(),
        "ż".as_bytes().to_vec(),
        "\u{2003}".as_bytes().to_vec(),
        vec![0xff],
    ]
}

fn names_upto(len: usize) -> Vec<Vec<u8>> {
    let alpha = name_alphabet();
    let mut out = Vec::new();
    let mut cur: Vec<Vec<u8>> = vec![vec![]];
    for _ in 0..len {
        let mut next = Vec::new();
        for s in &cur {
            for a in &alpha {
                let mut t = s.clone();
                t.extend_from_slice(a);
                next.push(t);
            }
        }
        out.extend(next.iter().cloned());
        cur = next;
    }
    out
}

/// Relative paths (appended to "/d/") made of components of at most 255 bytes; total lengths up to PATH_MAX - 1.
fn long_names() -> Vec<Vec<u8>> {
    let mut out = Vec::new();
    for sym in name_alphabet() {
        for mixed in [false, true] {
            for total in [255usize, 1020, 2040, 4092] {
                let mut name: Vec<u8> = Vec::new();
                let mut comp = 0usize;
                let mut i = 0usize;
                loop {
                    let unit: &[u8] = if mixed && i % 2 == 1 { b"a" } else { &sym };
                    i += 1;
                    if name.len() + unit.len() > total {
                        break;
                    }
                    if comp + unit.len() > 255 {
                        if name.len() + 1 + unit.len() > total {
                            break;
                        }
                        name.push(b'/');
                        comp = 0;
                    }
                    name.extend_from_slice(unit);
                    comp += unit.len();
                }
                out.push(name);
            }
        }
    }
    out
}

fn path_of(bytes: &[u8]) -> Path {
    Path::from(OsString::from_vec(bytes.to_vec()))
}

fn path_bytes(p: &Path) -> Vec<u8> {
    p.to_path_buf().into_os_string().into_vec()
}

fn mk_header(command: Vec<Vec<u8>>, base_dir: &[u8], ts: &str, large: bool) -> ReportHeader {
    let big: u64 = 1 << 50;
    ReportHeader {
        version: "0.35.0".to_string(),
        timestamp: DateTime::parse_from_str(ts, "%Y-%m-%d %H:%M:%S%.3f %z").unwrap(),
        command: command.into_iter().map(|a| Arg::from(OsString::from_vec(a))).collect(),
        base_dir: path_of(base_dir),
        stats: Some(FileStats {
            group_count: if large { 4_000_000_000 } else { 0 },
            total_file_count: if large { 5_000_000_000 } else { 0 },
            total_file_size: FileLen(if large { big } else { 0 }),
            redundant_file_count: if large { 3_000_000_001 } else { 0 },
            redundant_file_size: FileLen(if large { big - 1 } else { 0 }),
            missing_file_count: if large { 17 } else { 0 },
            missing_file_size: FileLen(if large { 1 } else { 0 }),
        }),
    }
}

fn default_header() -> ReportHeader {
    mk_header(
        vec![b"fclones".to_vec(), b"group".to_vec(), b".".to_vec()],
        b"/base/dir",
        "2021-08-27 12:11:23.456 +0000",
        false,
    )
}

fn hash_of(n: usize, seed: u8) -> FileHash {
    let v: Vec<u8> = (0..n).map(|i| (i as u8).wrapping_mul(37).wrapping_add(seed)).collect();
    FileHash::from(&v[..])
}

type Groups = Vec<FileGroup<Path>>;

fn write_report(format: OutputFormat, header: &ReportHeader, groups: &Groups) -> Result<Vec<u8>, String> {
    let mut buf: Vec<u8> = Vec::new();
    let r = catch_unwind(AssertUnwindSafe(|| {
        let mut w = ReportWriter::new(&mut buf, false);
        w.write(format, header, groups.iter())
    }));
    match r {
        Err(_) => Err("writer panicked".to_string()),
        Ok(Err(e)) => Err(format!("writer error: {e}")),
        Ok(Ok(())) => Ok(buf),
    }
}

/// Result of reading a report: header (or error), groups read before the first error / end,
/// and whether the group stream ended with an error.
struct ReadBack {
    header: Result<ReportHeader, String>,
    groups: Groups,
    ended_with_error: Option<String>,
}

fn read_report(data: Vec<u8>) -> Result<ReadBack, String> {
    let r = catch_unwind(move || {
        let mut reader = match open_report(Cursor::new(data)) {
            Ok(r) => r,
            Err(e) => {
                return ReadBack { header: Err(format!("open: {e}")), groups: vec![], ended_with_error: Some(e.to_string()) }
            }
        };
        let header = match reader.read_header() {
            Ok(h) => h,
            Err(e) => {
                return ReadBack { header: Err(format!("header: {e}")), groups: vec![], ended_with_error: Some(e.to_string()) }
            }
        };
        let mut it = match reader.read_groups() {
            Ok(i) => i,
            Err(e) => return ReadBack { header: Ok(header), groups: vec![], ended_with_error: Some(e.to_string()) },
        };
        let mut groups = Vec::new();
        let mut err = None;
        loop {
            match it.next() {
                Ok(Some(g)) => groups.push(g),
                Ok(None) => break,
                Err(e) => {
                    err = Some(e.to_string());
                    break;
                }
            }
        }
        ReadBack { header: Ok(header), groups, ended_with_error: err }
    });
    r.map_err(|_| "reader panicked".to_string())
}

fn fmt_name(f: OutputFormat) -> &'static str {
    match f {
        OutputFormat::Json => "json",
        _ => "text",
    }
}

fn is_ws(c: char) -> bool {
    c.is_whitespace()
}

/// Features of a byte string used in signatures.
fn str_features(b: &[u8]) -> String {
    let s = String::from_utf8_lossy(b);
    let first = s.chars().next();
    let last = s.chars().last();
    format!(
        "\"leading_ws\":{},\"trailing_ws\":{},\"has_backslash\":{},\"has_control\":{},\"non_utf8\":{}",
        first.map(is_ws).unwrap_or(false),
        last.map(is_ws).unwrap_or(false),
        b.contains(&b'\\'),
        b.iter().any(|x| *x < 0x20),
        std::str::from_utf8(b).is_err()
    )
}

fn groups_equal(a: &Groups, b: &Groups) -> Option<String> {
    if a.len() != b.len() {
        return Some(format!("group count {} != {}", a.len(), b.len()));
    }
    for (i, (x, y)) in a.iter().zip(b).enumerate() {
        if x.file_len != y.file_len {
            return Some(format!("group {i}: file_len"));
        }
        if x.file_hash != y.file_hash {
            return Some(format!("group {i}: file_hash"));
        }
        if x.files.len() != y.files.len() {
            return Some(format!("group {i}: path count {} != {}", x.files.len(), y.files.len()));
        }
        for (j, (p, q)) in x.files.iter().zip(&y.files).enumerate() {
            if path_bytes(p) != path_bytes(q) {
                return Some(format!(
                    "group {i} path {j}: {} != {}",
                    hex(&path_bytes(p)),
                    hex(&path_bytes(q))
                ));
            }
        }
    }
    None
}

struct Stats {
    roundtrips: u64,
    truncations: u64,
    names: u64,
}

fn roundtrip(
    header: &ReportHeader,
    groups: &Groups,
    what: &str,
    subject: &[u8],
    agg: &mut Agg,
    st: &mut Stats,
    check_header: bool,
) {
    for format in [OutputFormat::Default, OutputFormat::Json] {
        st.roundtrips += 1;
        let fname = fmt_name(format);
        let ex = |got: &str| {
            format!(
                "\"what\":{},\"subject_hex\":{},\"got\":{}",
                jstr(what),
                jstr(&hex(subject)),
                jstr(got)
            )
        };
        let data = match write_report(format, header, groups) {
            Ok(d) => d,
            Err(e) => {
                agg.add(
                    format!("\"kind\":\"write_failed\",\"format\":\"{fname}\",\"what\":{},{}", jstr(what), str_features(subject)),
                    || ex(&e),
                );
                continue;
            }
        };
        let rb = match read_report(data) {
            Ok(rb) => rb,
            Err(e) => {
                agg.add(
                    format!("\"kind\":\"read_panic\",\"format\":\"{fname}\",\"what\":{},{}", jstr(what), str_features(subject)),
                    || ex(&e),
                );
                continue;
            }
        };
        match &rb.header {
            Err(e) => {
                agg.add(
                    format!("\"kind\":\"read_error\",\"format\":\"{fname}\",\"what\":{},{}", jstr(what), str_features(subject)),
                    || ex(e),
                );
                continue;
            }
            Ok(h) => {
                if check_header {
                    let mut diffs: Vec<&str> = Vec::new();
                    if h.version != header.version {
                        diffs.push("version");
                    }
                    if h.timestamp.timestamp_millis() != header.timestamp.timestamp_millis()
                        || h.timestamp.offset() != header.timestamp.offset()
                    {
                        diffs.push("timestamp");
                    }
                    if h.command != header.command {
                        diffs.push("command");
                    }
                    if path_bytes(&h.base_dir) != path_bytes(&header.base_dir) {
                        diffs.push("base_dir");
                    }
                    if h.stats != header.stats {
                        diffs.push("stats");
                    }
                    for d in diffs {
                        agg.add(
                            format!(
                                "\"kind\":\"header_field_changed\",\"field\":\"{d}\",\"format\":\"{fname}\",{}",
                                str_features(subject)
                            ),
                            || ex(&format!("{:?}", h)),
                        );
                    }
                }
            }
        }
        if let Some(e) = &rb.ended_with_error {
            agg.add(
                format!("\"kind\":\"read_error\",\"format\":\"{fname}\",\"what\":{},{}", jstr(what), str_features(subject)),
                || ex(e),
            );
            continue;
        }
        if let Some(d) = groups_equal(groups, &rb.groups) {
            agg.add(
                format!("\"kind\":\"path_changed\",\"format\":\"{fname}\",\"what\":{},{}", jstr(what), str_features(subject)),
                || ex(&d),
            );
        }
    }
}

fn groups_with_name(name: &[u8]) -> Groups {
    let mut p = b"/d/".to_vec();
    p.extend_from_slice(name);
    vec![
        FileGroup { file_len: FileLen(7), file_hash: hash_of(16, 1), files: vec![path_of(&p), path_of(b"/d/z")] },
        FileGroup { file_len: FileLen(3), file_hash: hash_of(16, 2), files: vec![path_of(b"/d/y"), path_of(&p)] },
    ]
}

fn shape_groups(shape: (usize, usize), len: u64, hash_bytes: usize) -> Groups {
    (0..shape.0)
        .map(|i| FileGroup {
            file_len: FileLen(len),
            file_hash: hash_of(hash_bytes, i as u8),
            files: (0..shape.1).map(|j| path_of(format!("/r/g{i}/f{j}").as_bytes())).collect(),
        })
        .collect()
}

fn truncation(agg: &mut Agg, st: &mut Stats) {
    for ngroups in 1..=3usize {
        let groups: Groups = (0..ngroups)
            .map(|i| FileGroup {
                file_len: FileLen(10 - i as u64),
                file_hash: hash_of(16, i as u8),
                files: (0..=i + 1).map(|j| path_of(format!("/tree/dir{i}/file{j}.bin").as_bytes())).collect(),
            })
            .collect();
        let header = default_header();
        for format in [OutputFormat::Default, OutputFormat::Json] {
            let fname = fmt_name(format);
            let lf = write_report(format, &header, &groups).expect("write");
            let mut variants = vec![("lf", lf.clone())];
            if fname == "text" {
                let mut crlf = Vec::new();
                for b in &lf {
                    if *b == b'\n' {
                        crlf.push(b'\r');
                    }
                    crlf.push(*b);
                }
                variants.push(("crlf", crlf));
            }
            for (eol, data) in variants {
                // offsets at which each group becomes complete: end of the content of its last path line
                let mut complete_at: Vec<usize> = Vec::new();
                let mut group_start: Vec<usize> = Vec::new();
                if fname == "text" {
                    let text = String::from_utf8(data.clone()).unwrap();
                    let mut off = 0usize;
                    let mut last_path_end = None;
                    for line in text.split_inclusive('\n') {
                        let content = line.trim_end_matches(|c| c == '\n' || c == '\r');
                        if !line.starts_with('#') && !line.starts_with("    ") {
                            if let Some(e) = last_path_end.take() {
                                complete_at.push(e);
                            }
                            group_start.push(off);
                        } else if line.starts_with("    ") {
                            last_path_end = Some(off + content.len());
                        }
                        off += line.len();
                    }
                    if let Some(e) = last_path_end {
                        complete_at.push(e);
                    }
                    assert_eq!(complete_at.len(), ngroups);
                }
                for t in 0..=data.len() {
                    st.truncations += 1;
                    let prefix = data[..t].to_vec();
                    let ex = |got: &str| {
                        format!("\"groups\":{ngroups},\"eol\":\"{eol}\",\"cut_at\":{t},\"total_len\":{},\"got\":{}", data.len(), jstr(got))
                    };
                    let rb = match read_report(prefix) {
                        Ok(rb) => rb,
                        Err(e) => {
                            agg.add(format!("\"kind\":\"read_panic\",\"format\":\"{fname}\",\"what\":\"truncation\""), || ex(&e));
                            continue;
                        }
                    };
                    // every group handed out must be one of the original groups, in order, complete
                    let mut bad = None;
                    for (i, g) in rb.groups.iter().enumerate() {
                        if i >= groups.len() {
                            bad = Some(format!("extra group {i}"));
                            break;
                        }
                        if let Some(d) = groups_equal(&vec![groups[i].clone()], &vec![g.clone()]) {
                            bad = Some(format!("group {i} differs: {d}"));
                            break;
                        }
                    }
                    if let Some(d) = bad {
                        let in_last_line = fname == "text";
                        agg.add(
                            format!("\"kind\":\"partial_group_accepted\",\"format\":\"{fname}\",\"cut_inside_path_line\":{in_last_line}"),
                            || ex(&d),
                        );
                        continue;
                    }
                    if fname == "text" {
                        // a cut strictly inside a group (after its first byte, before it is complete)
                        // must end in an error
                        let inside = (0..ngroups).any(|i| t > group_start[i] && t < complete_at[i]);
                        if inside && rb.ended_with_error.is_none() && rb.header.is_ok() {
                            agg.add(
                                format!("\"kind\":\"truncation_silently_accepted\",\"format\":\"{fname}\""),
                                || ex(&format!("{} groups, no error", rb.groups.len())),
                            );
                        }
                        let complete = complete_at.iter().filter(|e| **e <= t).count();
                        if rb.groups.len() > complete {
                            agg.add(
                                format!("\"kind\":\"partial_group_accepted\",\"format\":\"{fname}\",\"cut_inside_path_line\":true"),
                                || ex("more groups than completely contained"),
                            );
                        }
                    } else if t < data.len() && !rb.groups.is_empty() && rb.ended_with_error.is_none() {
                        // JSON: a strict prefix that still parses must not drop groups silently
                        if rb.groups.len() != groups.len() {
                            agg.add(
                                format!("\"kind\":\"truncation_silently_accepted\",\"format\":\"{fname}\""),
                                || ex(&format!("{} groups, no error", rb.groups.len())),
                            );
                        }
                    }
                }
            }
        }
    }
}

pub fn main(args: &[String]) {
    let mut agg = Agg::default();
    let mut st = Stats { roundtrips: 0, truncations: 0, names: 0 };
    if let Some(h) = arg_val(args, "--one-name") {
        let name = unhex(h);
        roundtrip(&default_header(), &groups_with_name(&name), "name", &name, &mut agg, &mut st, false);
    } else if let Some(h) = arg_val(args, "--one-basedir") {
        let name = unhex(h);
        let mut bd = b"/".to_vec();
        bd.extend_from_slice(&name);
        let header = mk_header(vec![b"fclones".to_vec(), b"group".to_vec()], &bd, "2021-08-27 12:11:23.456 +0000", false);
        roundtrip(&header, &shape_groups((1, 2), 1, 16), "base_dir", &name, &mut agg, &mut st, true);
    } else if let Some(h) = arg_val(args, "--one-command") {
        let cmd: Vec<Vec<u8>> = h.split(',').map(unhex).collect();
        let subject = cmd.join(&b' ');
        let header = mk_header(cmd, b"/base", "2021-08-27 12:11:23.456 +0000", false);
        roundtrip(&header, &shape_groups((1, 2), 1, 16), "command", &subject, &mut agg, &mut st, true);
    } else if args.iter().any(|a| a == "--truncate") {
        truncation(&mut agg, &mut st);
    } else {
        let len: usize = arg_val(args, "--names").unwrap_or("2").parse().unwrap();
        let shard = arg_val(args, "--shard").unwrap_or("0/1");
        let (si, sn) = shard.split_once('/').unwrap();
        let (si, sn): (usize, usize) = (si.parse().unwrap(), sn.parse().unwrap());
        let mut idx = 0usize;
        let mut mine = || {
            let m = idx % sn == si;
            idx += 1;
            m
        };
        // 1. names in first / last position of a group
        for name in names_upto(len) {
            if !mine() {
                continue;
            }
            st.names += 1;
            roundtrip(&default_header(), &groups_with_name(&name), "name", &name, &mut agg, &mut st, false);
        }
        // 1b. long names: every symbol repeated up to the limits of a real file system (components of <= 255
        // bytes, whole path <= 4095 bytes), pure and alternating with 'a'
        for name in long_names() {
            if !mine() {
                continue;
            }
            st.names += 1;
            roundtrip(&default_header(), &groups_with_name(&name), "long_name", &name, &mut agg, &mut st, false);
        }
        // 1c. several directories in ONE report whose names differ only in bytes that are not valid UTF-8 (or are
        // the replacement character itself): every path must come back as written
        {
            let odd: Vec<Vec<u8>> = vec![vec![0xff], vec![0xfe], "\u{fffd}".as_bytes().to_vec(), vec![0xc3], b"a".to_vec()];
            for x in &odd {
                for y in &odd {
                    if x == y || !mine() {
                        continue;
                    }
                    let mk = |d: &[u8], f: &[u8]| {
                        let mut p = b"/d".to_vec();
                        p.extend_from_slice(d);
                        p.push(b'/');
                        p.extend_from_slice(f);
                        path_of(&p)
                    };
                    let groups: Groups = vec![
                        FileGroup { file_len: FileLen(7), file_hash: hash_of(16, 1), files: vec![mk(x, b"f"), mk(y, b"f")] },
                        FileGroup { file_len: FileLen(3), file_hash: hash_of(16, 2), files: vec![mk(y, b"g"), mk(x, b"g"), mk(x, b"h")] },
                    ];
                    let mut subject = x.clone();
                    subject.push(b'|');
                    subject.extend_from_slice(y);
                    st.names += 1;
                    roundtrip(&default_header(), &groups, "sibling_dirs", &subject, &mut agg, &mut st, false);
                }
            }
        }
        // 2. shapes x lengths x hash sizes
        for shape in [(1usize, 1usize), (1, 2), (2, 2), (3, 1), (0, 0)] {
            // (lengths above 2^53 do not survive a detour through a floating-point number)
            for flen in [0u64, 1, 1 << 40, (1 << 53) + 1, 1234567890123456789, (1 << 63) + 1, u64::MAX - 1] {
                for hb in [16usize, 32, 64] {
                    if !mine() {
                        continue;
                    }
                    roundtrip(&default_header(), &shape_groups(shape, flen, hb), "shape", format!("{shape:?} {flen} {hb}").as_bytes(), &mut agg, &mut st, true);
                }
            }
        }
        // 3. header fields: base dir, timestamps, stats, command
        for name in names_upto(std::cmp::min(len, 2)) {
            if !mine() {
                continue;
            }
            let mut bd = b"/".to_vec();
            bd.extend_from_slice(&name);
            let header = mk_header(vec![b"fclones".to_vec(), b"group".to_vec()], &bd, "2021-08-27 12:11:23.456 +0000", false);
            roundtrip(&header, &shape_groups((1, 2), 1, 16), "base_dir", &name, &mut agg, &mut st, true);
        }
        for ts in [
            "2021-08-27 12:11:23.000 +0000",
            "2021-08-27 12:11:23.001 +0000",
            "2021-08-27 12:11:23.999 +0000",
            "2021-12-31 23:59:59.999 +0130",
            "2024-02-29 00:00:00.001 -0800",
            "1970-01-01 00:00:00.000 +0000",
        ] {
            for large in [false, true] {
                if !mine() {
                    continue;
                }
                let header = mk_header(vec![b"fclones".to_vec(), b"group".to_vec(), b".".to_vec()], b"/b", ts, large);
                roundtrip(&header, &shape_groups((1, 2), 1, 16), "timestamp_stats", format!("{ts} {large}").as_bytes(), &mut agg, &mut st, true);
            }
        }
        // the alphabet of C17 plus the empty argument (`--name ''`)
        let mut qa = crate::quote::alphabet();
        qa.push(Vec::new());
        let mut cmds: Vec<Vec<Vec<u8>>> = Vec::new();
        for a in &qa {
            cmds.push(vec![a.clone()]);
            for b in &qa {
                cmds.push(vec![a.clone(), b.clone()]);
            }
        }
        // arguments that look like terminal control sequences (CSI introduced by ESC [ or by the C1 control U+009B):
        // a reader that "cleans" coloured reports may not eat them
        for a in ["x\u{9b}1mbold", "S\u{c3}\u{9b}R", "\u{1b}[31mred\u{1b}[0m", "\u{9b}0K", "a\u{9b}?25hb", "\u{1b}]0;title\u{7}", "\u{9b}", "\u{1b}"] {
            cmds.push(vec![a.as_bytes().to_vec()]);
            cmds.push(vec![b"--isolate".to_vec(), a.as_bytes().to_vec(), b"plain".to_vec()]);
        }
        // command lines longer than the reader's buffer (16 KiB), made of multi-byte characters in every alignment
        // relative to the buffer boundaries: a character cut in two by a refill must still come back whole
        for (ch, width) in [("\u{e9}", 2usize), ("\u{20ac}", 3), ("\u{1f600}", 4)] {
            for pad in 0..width {
                let mut a = "a".repeat(pad);
                a.push_str(&ch.repeat(40000 / width));
                cmds.push(vec![b"--exclude".to_vec(), a.into_bytes()]);
            }
        }
        for c in cmds {
            if !mine() {
                continue;
            }
            let mut cmd = vec![b"fclones".to_vec(), b"group".to_vec()];
            cmd.extend(c.iter().cloned());
            let subject = c.join(&b' ');
            let header = mk_header(cmd, b"/base", "2021-08-27 12:11:23.456 +0000", false);
            roundtrip(&header, &shape_groups((1, 2), 1, 16), "command", &subject, &mut agg, &mut st, true);
        }
    }
    agg.print();
    println!(
        "{{\"type\":\"summary\",\"roundtrips\":{},\"truncations\":{},\"names\":{}}}",
        st.roundtrips, st.truncations, st.names
    );
}
