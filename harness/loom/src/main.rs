//! C19: exhaustive exploration (DPOR, optionally preemption-bounded) of the real
//! /repo/fclones/src/semaphore.rs under loom.
//! usage: fcv-loom <mode> <T> <P> <N> <C> <max_preemptions|none>
#![allow(dead_code, unused_imports)]

#[path = "/repo/fclones/src/semaphore.rs"]
mod semaphore;

use loom::sync::mpsc;
use loom::thread;

include!("../../sem/body.rs");

fn main() {
    let args: Vec<String> = std::env::args().skip(1).collect();
    let cfg = parse_cfg(&args);
    let bound = args.get(5).cloned().unwrap_or_else(|| "none".to_string());
    let mon = StdArc::new(Monitor::new());
    let mut b = loom::model::Builder::new();
    b.preemption_bound = if bound == "none" { None } else { Some(bound.parse().unwrap()) };
    b.max_branches = 100_000;
    // safety cap only: the configurations registered in the check finish far below it; reaching
    // it makes loom stop silently, which we detect by the wall time and report as incomplete.
    let cap = std::env::var("FCV_WALL_CAP").ok().and_then(|s| s.parse::<u64>().ok()).unwrap_or(600);
    b.max_duration = Some(std::time::Duration::from_secs(cap));
    let started = std::time::Instant::now();
    {
        let mon2 = mon.clone();
        let prev = std::panic::take_hook();
        std::panic::set_hook(Box::new(move |info| {
            eprintln!("FCV-FAIL iteration={}", mon2.executions.load(SeqCst));
            prev(info);
        }));
    }
    let (cfg2, mon2) = (cfg.clone(), mon.clone());
    b.check(move || run_once(&cfg2, &mon2));
    let complete = started.elapsed() < std::time::Duration::from_secs(cap);
    report(&cfg, &mon, "loom", &bound, complete);
}
