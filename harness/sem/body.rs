// Shared driver for the loom and shuttle harnesses of C19. Included with `include!` after the
// including file has defined the aliases `thread`, `mpsc` and the module `semaphore` (the real
// /repo/fclones/src/semaphore.rs compiled against the tool's Mutex/Condvar).

use semaphore::Semaphore;
use std::collections::BTreeSet;
use std::sync::atomic::{AtomicIsize, AtomicU64, AtomicUsize, Ordering::SeqCst};
use std::sync::Arc as StdArc;
use std::sync::Mutex as StdMutex;

#[derive(Clone, Debug)]
pub struct Cfg {
    pub mode: String, // local | owned | raw | protocol
    pub t: usize,     // acquiring threads (protocol: number of tasks)
    pub p: usize,     // acquire/release pairs per thread (protocol: open-file permits)
    pub n: isize,     // initial permits (protocol: throttle permits)
    pub c: usize,     // chaos steps (spurious wake-ups of all waiters)
}

/// Statistics shared across executions (plain std types: invisible to the scheduler).
pub struct Monitor {
    pub executions: AtomicU64,
    pub ops: AtomicU64,
    pub contended: AtomicU64,
    pub max_holders: AtomicIsize,
    pub outcomes: StdMutex<BTreeSet<Vec<u8>>>,
}

impl Monitor {
    pub fn new() -> Monitor {
        Monitor {
            executions: AtomicU64::new(0),
            ops: AtomicU64::new(0),
            contended: AtomicU64::new(0),
            max_holders: AtomicIsize::new(0),
            outcomes: StdMutex::new(BTreeSet::new()),
        }
    }
}

/// Per-execution observer.
struct Exec {
    holders: AtomicIsize,
    extra: AtomicIsize,
    n: isize,
    order: StdMutex<Vec<u8>>,
    contended: AtomicUsize,
    ops: AtomicU64,
    max_holders: AtomicIsize,
}

impl Exec {
    fn before_acquire(&self) {
        self.ops.fetch_add(1, SeqCst);
        if self.holders.load(SeqCst) >= self.n + self.extra.load(SeqCst) {
            self.contended.fetch_add(1, SeqCst);
        }
    }
    fn acquired(&self, who: u8) {
        let h = self.holders.fetch_add(1, SeqCst) + 1;
        let limit = std::cmp::max(self.n, 0) + self.extra.load(SeqCst);
        self.max_holders.fetch_max(h, SeqCst);
        assert!(
            h <= limit,
            "FCV over-admission: {} holders with {} permits",
            h,
            limit
        );
        self.order.lock().unwrap().push(who);
    }
    fn releasing(&self) {
        self.ops.fetch_add(1, SeqCst);
        self.holders.fetch_sub(1, SeqCst);
    }
}

pub fn run_once(cfg: &Cfg, mon: &Monitor) {
    mon.executions.fetch_add(1, SeqCst);
    let ex = StdArc::new(Exec {
        holders: AtomicIsize::new(0),
        extra: AtomicIsize::new(0),
        n: cfg.n,
        order: StdMutex::new(Vec::new()),
        contended: AtomicUsize::new(0),
        ops: AtomicU64::new(0),
        max_holders: AtomicIsize::new(0),
    });
    if cfg.mode == "protocol" {
        run_protocol(cfg, &ex);
    } else {
        run_pairs(cfg, &ex);
    }
    mon.ops.fetch_add(ex.ops.load(SeqCst), SeqCst);
    if ex.contended.load(SeqCst) > 0 {
        mon.contended.fetch_add(1, SeqCst);
    }
    mon.max_holders.fetch_max(ex.max_holders.load(SeqCst), SeqCst);
    let order = ex.order.lock().unwrap().clone();
    mon.outcomes.lock().unwrap().insert(order);
}

fn run_pairs(cfg: &Cfg, ex: &StdArc<Exec>) {
    let sem = StdArc::new(Semaphore::new(cfg.n));
    // With no initial permit somebody has to provide one: the main thread releases once.
    let extra_releases: isize = if cfg.n <= 0 { 1 - cfg.n } else { 0 };
    let (tx, rx) = mpsc::channel::<semaphore::OwnedSemaphoreGuard>();
    let mut handles = Vec::new();
    for i in 0..cfg.t {
        let sem = sem.clone();
        let ex = ex.clone();
        let tx = tx.clone();
        let mode = cfg.mode.clone();
        let p = cfg.p;
        handles.push(thread::spawn(move || {
            for _ in 0..p {
                match mode.as_str() {
                    "local" => {
                        ex.before_acquire();
                        let g = sem.access();
                        ex.acquired(i as u8);
                        thread::yield_now(); // a scheduling point inside the critical section
                        ex.releasing();
                        drop(g);
                    }
                    "raw" => {
                        ex.before_acquire();
                        sem.acquire();
                        ex.acquired(i as u8);
                        thread::yield_now();
                        ex.releasing();
                        sem.release();
                    }
                    "owned" => {
                        ex.before_acquire();
                        let g = sem.clone().access_owned();
                        ex.acquired(i as u8);
                        tx.send(g).unwrap();
                    }
                    other => panic!("FCV bad mode {}", other),
                }
            }
        }));
    }
    drop(tx);
    // The main thread plays the environment: extra releases, chaos, and (owned mode) the releaser.
    for _ in 0..extra_releases {
        ex.extra.fetch_add(1, SeqCst);
        ex.ops.fetch_add(1, SeqCst);
        sem.release();
    }
    for _ in 0..cfg.c {
        ex.ops.fetch_add(1, SeqCst);
        sem.verif_wake_all();
    }
    if cfg.mode == "owned" {
        for _ in 0..cfg.t * cfg.p {
            let g = rx.recv().unwrap();
            ex.releasing();
            drop(g);
        }
    }
    for h in handles {
        h.join().unwrap();
    }
    let avail = sem.verif_available();
    let expected = cfg.n + extra_releases;
    assert!(
        avail == expected,
        "FCV permit-leak: {} permits available after all guards were dropped, expected {}",
        avail,
        expected
    );
    assert!(ex.holders.load(SeqCst) == 0, "FCV harness: holders != 0 at the end");
}

/// The throttling protocol of group.rs rehash(): a dispatcher takes one permit of the task
/// semaphore per task and hands the owned guard to a worker; the worker takes a permit of the
/// (global) open-files semaphore, works, and drops both guards.
fn run_protocol(cfg: &Cfg, ex: &StdArc<Exec>) {
    let tasks = cfg.t;
    let throttle = StdArc::new(Semaphore::new(cfg.n));
    let open_files = StdArc::new(Semaphore::new(cfg.p as isize));
    let open_now = StdArc::new(AtomicIsize::new(0));
    let mut handles = Vec::new();
    let mut txs = Vec::new();
    for w in 0..2u8 {
        // `None` tells the worker to stop (the tools' channels do not all model disconnection)
        let (tx, rx) = mpsc::channel::<Option<semaphore::OwnedSemaphoreGuard>>();
        txs.push(tx);
        let open_files = open_files.clone();
        let open_now = open_now.clone();
        let ex = ex.clone();
        let limit = cfg.p as isize;
        handles.push(thread::spawn(move || {
            while let Ok(Some(task_guard)) = rx.recv() {
                ex.ops.fetch_add(1, SeqCst);
                let of = open_files.clone().access_owned();
                let o = open_now.fetch_add(1, SeqCst) + 1;
                assert!(o <= limit, "FCV over-admission: {} open files with {} permits", o, limit);
                ex.order.lock().unwrap().push(100 + w);
                thread::yield_now();
                open_now.fetch_sub(1, SeqCst);
                ex.ops.fetch_add(1, SeqCst);
                drop(of);
                ex.releasing();
                drop(task_guard);
            }
        }));
    }
    for k in 0..tasks {
        ex.before_acquire();
        let g = throttle.clone().access_owned();
        ex.acquired(k as u8);
        txs[k % 2].send(Some(g)).unwrap();
    }
    for _ in 0..cfg.c {
        ex.ops.fetch_add(1, SeqCst);
        throttle.verif_wake_all();
        open_files.verif_wake_all();
    }
    for tx in &txs {
        tx.send(None).unwrap();
    }
    for h in handles {
        h.join().unwrap();
    }
    drop(txs);
    let a = throttle.verif_available();
    let b = open_files.verif_available();
    assert!(
        a == cfg.n && b == cfg.p as isize,
        "FCV permit-leak: throttle {} (expected {}), open files {} (expected {})",
        a,
        cfg.n,
        b,
        cfg.p
    );
}

pub fn parse_cfg(args: &[String]) -> Cfg {
    Cfg {
        mode: args[0].clone(),
        t: args[1].parse().unwrap(),
        p: args[2].parse().unwrap(),
        n: args[3].parse().unwrap(),
        c: args[4].parse().unwrap(),
    }
}

pub fn report(cfg: &Cfg, mon: &Monitor, engine: &str, bound: &str, complete: bool) {
    println!(
        "{{\"engine\":\"{}\",\"mode\":\"{}\",\"t\":{},\"p\":{},\"n\":{},\"c\":{},\"bound\":\"{}\",\"executions\":{},\"ops\":{},\"contended_executions\":{},\"max_holders\":{},\"distinct_acquisition_orders\":{},\"complete\":{}}}",
        engine,
        cfg.mode,
        cfg.t,
        cfg.p,
        cfg.n,
        cfg.c,
        bound,
        mon.executions.load(SeqCst),
        mon.ops.load(SeqCst),
        mon.contended.load(SeqCst),
        mon.max_holders.load(SeqCst),
        mon.outcomes.lock().unwrap().len(),
        complete
    );
}
