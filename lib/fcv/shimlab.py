"""Driver for the LD_PRELOAD shim (engine E1): record an event history of the real binary, re-run it with a
kill / failing call / pause at event k, and prove that the run is deterministic up to k."""
import os
import re
import signal
import subprocess
import urllib.parse

from . import common as C

SHIM = os.path.join(C.BUILD, "fcshim.so")
TMP_SUFFIX = re.compile(r"\.[A-Za-z0-9]{8,24}(?=$|/)")   # 24 random characters (fewer if a name limit cut them)
TRANSFORM_DIR = re.compile(r"fclones-[0-9a-f]{32}")
ERRNO = {"EPERM": 1, "ENOENT": 2, "EIO": 5, "EACCES": 13, "EEXIST": 17, "EXDEV": 18, "ENOSPC": 28, "EOPNOTSUPP": 95,
         "EINVAL": 22, "ENOSYS": 38}


def prepare():
    C.build_hooks()
    C.build_shim()


class Event:
    __slots__ = ("k", "cls", "tid", "call", "path", "path2", "info", "ret", "errno")

    def __init__(self, fields):
        self.k = int(fields[0])
        self.cls = fields[1]
        self.tid = fields[2]
        self.call = fields[3]
        self.path = urllib.parse.unquote_to_bytes(fields[4]).decode("utf-8", "surrogateescape")
        self.path2 = urllib.parse.unquote_to_bytes(fields[5]).decode("utf-8", "surrogateescape")
        self.info = fields[6]
        self.ret = int(fields[7])
        self.errno = int(fields[8])

    def norm(self):
        """Identity of the event for determinism checks (random temp names and clock values removed)."""
        def n(p):
            return TRANSFORM_DIR.sub("fclones-TMP", TMP_SUFFIX.sub(".TMPSUFFIX", p))
        info = "" if self.call == "clock_realtime" else self.info
        return (self.cls, self.call, n(self.path), n(self.path2), info)

    def __repr__(self):
        return "%d:%s(%s%s)%s=%d/%d" % (self.k, self.call, self.path, "," + self.path2 if self.path2 else "",
                                      "[" + self.info + "]" if self.info else "", self.ret, self.errno)


def read_log(path):
    ev = []
    try:
        with open(path, "r", errors="surrogateescape") as f:
            for line in f:
                if line.startswith("#"):
                    continue
                fields = line.rstrip("\n").split("\t")
                if len(fields) != 9:
                    continue   # a line cut short by a kill
                ev.append(Event(fields))
    except FileNotFoundError:
        pass
    ev.sort(key=lambda e: e.k)
    return ev


def log_marks(path):
    """'#NAME<tab>value' lines of a shim log (e.g. #MAXOPEN: the largest number of descriptors that were open at
    the same time on paths below the roots)."""
    out = {}
    try:
        with open(path, "r", errors="surrogateescape") as f:
            for line in f:
                if line.startswith("#") and "\t" in line:
                    k, v = line[1:].rstrip("\n").split("\t", 1)
                    out[k] = v
    except FileNotFoundError:
        pass
    return out


def shim_env(scratch, roots, classes, log, mode=None, at=None, errno=None, at2=None, errno2=None, emulate_clone=False,
             extra=None):
    e = {"LD_PRELOAD": SHIM, "FCSHIM_ROOT": ":".join(roots), "FCSHIM_CLASSES": classes, "FCSHIM_LOG": log}
    if mode:
        e["FCSHIM_MODE"] = mode
        e["FCSHIM_AT"] = str(at)
    if errno is not None:
        e["FCSHIM_ERRNO"] = str(errno)
    if at2 is not None:
        e["FCSHIM_AT2"] = str(at2)
        e["FCSHIM_ERRNO2"] = str(errno2)
    if emulate_clone:
        e["FCSHIM_EMULATE_CLONE"] = "1"
    if extra:
        e.update(extra)
    return e


def run_with_shim(scratch, args, roots, classes="m", stdin=b"", cwd=None, mode=None, at=None, errno=None, at2=None,
                  errno2=None, emulate_clone=False, env_extra=None, on_pause=None, timeout=120):
    """Runs fclones under the shim. Returns dict(rc, out, err, events, killed, paused).
    on_pause: callable invoked while the process is stopped at event `at` (mode == 'pause')."""
    log = os.path.join(scratch.root, "shim.%d.log" % len(os.listdir(scratch.root)))
    if os.path.exists(log):
        os.unlink(log)
    env = scratch.env(shim_env(scratch, roots, classes, log, mode, at, errno, at2, errno2, emulate_clone, env_extra))
    if mode != "pause":
        rc, out, err, to = C.run([C.FCLONES] + list(args), cwd=cwd or scratch.tree, env=env, stdin=stdin, timeout=timeout)
        return {"rc": rc, "out": out, "err": err.decode("utf-8", "replace"), "timeout": to, "events": read_log(log),
                "killed": rc == -signal.SIGKILL, "paused": False, "marks": log_marks(log)}
    # pause mode: the process stops itself (SIGSTOP) right before event `at`
    outf = open(os.path.join(scratch.root, "pause.out"), "wb+")
    errf = open(os.path.join(scratch.root, "pause.err"), "wb+")
    inf = None
    if stdin:
        inp = os.path.join(scratch.root, "pause.in")
        with open(inp, "wb") as f:
            f.write(stdin)
        inf = open(inp, "rb")
    p = subprocess.Popen([C.b(C.FCLONES)] + [C.b(a) for a in args], cwd=C.b(cwd or scratch.tree), env=env,
                         stdin=inf or subprocess.DEVNULL, stdout=outf, stderr=errf)
    paused = False
    rc = None
    import time
    deadline = time.time() + timeout
    while True:
        pid, status = os.waitpid(p.pid, os.WUNTRACED | os.WNOHANG)
        if pid == 0:
            if time.time() > deadline:
                os.kill(p.pid, signal.SIGKILL)
                os.waitpid(p.pid, 0)
                rc = -9
                break
            time.sleep(0.002)
            continue
        if os.WIFSTOPPED(status):
            paused = True
            try:
                if on_pause:
                    on_pause()
            finally:
                os.kill(p.pid, signal.SIGCONT)
            continue
        rc = os.WEXITSTATUS(status) if os.WIFEXITED(status) else -os.WTERMSIG(status)
        break
    p.returncode = rc
    outf.seek(0)
    errf.seek(0)
    out, err = outf.read(), errf.read()
    outf.close()
    errf.close()
    if inf:
        inf.close()
    return {"rc": rc, "out": out, "err": err.decode("utf-8", "replace"), "timeout": rc == -9 and not paused,
            "events": read_log(log), "killed": False, "paused": paused}


def canon(events):
    """Identity of every event for determinism checks. Paths that come into being during the run - the destination of
    a rename inside one directory, or a path whose first appearance is an open with O_CREAT - are renamed to
    '<directory>/@new<n>' in order of appearance, so that randomly named temporary files compare equal whatever the
    naming scheme is; what is left is normalised as in Event.norm()."""
    names = {}
    seen = set()

    def created(p):
        if p not in names and p not in seen:
            names[p] = "%s/@new%d" % (os.path.dirname(p), len(names))

    out = []
    for e in events:
        if e.call == "rename" and os.path.dirname(e.path) == os.path.dirname(e.path2):
            seen.add(e.path)
            created(e.path2)
        elif e.call == "open" and "creat" in e.info:
            created(e.path)
        for q in (e.path, e.path2):
            if q:
                seen.add(q)
        cls, call, p1, p2, info = e.norm()
        p1 = names.get(e.path, p1)
        if e.call != "symlink":
            p2 = names.get(e.path2, p2)
        out.append((cls, call, p1, p2, info))
    return out


def same_history(a, b, upto=None):
    """Compares two event lists (normalised). Returns None if equal (up to index `upto`), else a description."""
    n = min(len(a), len(b)) if upto is None else upto
    if upto is None and len(a) != len(b):
        return "different lengths %d vs %d" % (len(a), len(b))
    ca, cb = canon(a), canon(b)
    for i in range(n):
        if i >= len(a) or i >= len(b):
            return "history ends early at %d" % i
        if ca[i] != cb[i]:
            return "event %d differs: %r vs %r" % (i, a[i], b[i])
    return None


def mutated_paths(ev):
    """Paths whose directory entry, data or metadata a mutating event changes."""
    if ev.cls != "m":
        return []
    if ev.call in ("copy_file_range", "sendfile", "ficlone"):
        return [ev.path] if ev.path else []          # path = destination, path2 = source (only read)
    if ev.call in ("rename", "link"):
        return [p for p in (ev.path, ev.path2) if p]
    if ev.call == "symlink":
        return [ev.path]                               # path2 is the link's target text
    return [ev.path] if ev.path else []


def impossible_fault(events, k, errno_name):
    """EPERM / EOPNOTSUPP / ENOSYS from copy_file_range or sendfile mean "not supported for these files"; a kernel
    can only answer that on the FIRST call of a copy, and Rust's std asserts exactly this (kernel_copy:
    `assert_eq!(written, 0)`) before falling back to read/write. Injecting them into a later call of the same copy is
    not a behaviour of any file system, so such (k, errno) pairs are not enumerated."""
    ev = events[k]
    if ev.call not in ("copy_file_range", "sendfile") or errno_name not in ("EPERM", "EOPNOTSUPP", "ENOSYS", "EXDEV"):
        return False
    return any(p.call == ev.call and p.path == ev.path and p.ret > 0 for p in events[:k])
