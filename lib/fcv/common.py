"""Shared plumbing for all fclones checks: builds, scratch trees, inventories, running the
binary, report parsing, evidence, known findings, violation reporting.

Python 3 stdlib only.
"""
import fcntl
import hashlib
import itertools
import json
import multiprocessing
import os
import re
import shutil
import signal
import stat
import subprocess
import sys
import time
import traceback

VERIF = os.path.dirname(os.path.dirname(os.path.dirname(os.path.abspath(__file__))))
REPO = os.environ.get("FCV_REPO", "/repo")
BUILD = os.environ.get("FCV_BUILD", os.path.join(VERIF, ".build"))
HOOKS_TARGET = os.path.join(BUILD, "hooks")
FCLONES = os.path.join(HOOKS_TARGET, "debug", "fclones")
SHM = os.environ.get("FCV_SCRATCH", "/dev/shm")
EXT4 = os.environ.get("FCV_SCRATCH_EXT4", "/var/tmp")
EXIT_MACHINERY = 2
JOBS = int(os.environ.get("FCV_JOBS", str(min(16, os.cpu_count() or 4))))


class MachineryError(Exception):
    pass


# --------------------------------------------------------------------------- builds

def _lock(name):
    os.makedirs(BUILD, exist_ok=True)
    f = open(os.path.join(BUILD, name + ".lock"), "w")
    fcntl.flock(f, fcntl.LOCK_EX)
    return f


def _run_build(cmd, cwd, env_extra, what):
    env = dict(os.environ)
    env.update({"CARGO_NET_OFFLINE": "true", "CARGO_TERM_COLOR": "never"})
    env.update(env_extra)
    p = subprocess.run(cmd, cwd=cwd, env=env, stdout=subprocess.PIPE, stderr=subprocess.STDOUT)
    if p.returncode != 0:
        sys.stderr.write(p.stdout.decode("utf-8", "replace")[-6000:])
        raise MachineryError("build failed: " + what)


def build_hooks():
    """Builds /repo's fclones binary (dev profile) with --cfg fclones_verif. Returns its path."""
    with _lock("hooks"):
        _run_build(["cargo", "build", "--offline", "-p", "fclones", "--bin", "fclones"],
                   REPO, {"RUSTFLAGS": "--cfg fclones_verif", "CARGO_TARGET_DIR": HOOKS_TARGET},
                   "fclones with hooks")
    if not os.path.exists(FCLONES):
        raise MachineryError("fclones binary missing after build")
    return FCLONES


def _sync_lock(crate_dir):
    """Seeds the harness crate's Cargo.lock from /repo's (offline resolution needs it)."""
    dst = os.path.join(crate_dir, "Cargo.lock")
    if not os.path.exists(dst):
        shutil.copy(os.path.join(REPO, "Cargo.lock"), dst)


def build_harness(name, rustflags, profile="release", bins=None):
    """Builds /verif/harness/<name> (a cargo crate) into /verif/.build/<name>."""
    crate = os.path.join(VERIF, "harness", name)
    target = os.path.join(BUILD, name)
    if REPO != "/repo":
        # the harness crates name /repo (path dependency, #[path] include): for a run against another copy of the
        # repository (FCV_REPO) a copy of the crates with that path substituted is built instead
        src_root = os.path.join(BUILD, "harness-src")
        for sub in (name, "sem"):
            s_dir = os.path.join(VERIF, "harness", sub)
            if not os.path.isdir(s_dir):
                continue
            for dp, dn, fn in os.walk(s_dir):
                rel = os.path.relpath(dp, os.path.join(VERIF, "harness"))
                os.makedirs(os.path.join(src_root, rel), exist_ok=True)
                for f in fn:
                    with open(os.path.join(dp, f), "rb") as fh:
                        data = fh.read().replace(b"/repo/", REPO.encode() + b"/")
                    dst = os.path.join(src_root, rel, f)
                    if not os.path.exists(dst) or open(dst, "rb").read() != data:
                        with open(dst, "wb") as fh:
                            fh.write(data)
        crate = os.path.join(src_root, name)
    with _lock(name):
        _sync_lock(crate)
        cmd = ["cargo", "build", "--offline"]
        if profile == "release":
            cmd.append("--release")
        _run_build(cmd, crate, {"RUSTFLAGS": rustflags, "CARGO_TARGET_DIR": target}, name)
    return os.path.join(target, "release" if profile == "release" else "debug")


def build_shim():
    src = os.path.join(VERIF, "shim", "fcshim.c")
    out = os.path.join(BUILD, "fcshim.so")
    with _lock("shim"):
        if (not os.path.exists(out)) or os.path.getmtime(out) < os.path.getmtime(src):
            p = subprocess.run(["gcc", "-O1", "-g", "-shared", "-fPIC", "-Wall", "-fno-delete-null-pointer-checks", "-o", out + ".tmp", src, "-ldl",
                                "-lpthread"], stdout=subprocess.PIPE, stderr=subprocess.STDOUT)
            if p.returncode != 0:
                sys.stderr.write(p.stdout.decode())
                raise MachineryError("shim build failed")
            os.replace(out + ".tmp", out)
    return out


# --------------------------------------------------------------------------- bytes/str helpers

def b(s):
    """str (surrogateescape) -> bytes"""
    return s.encode("utf-8", "surrogateescape") if isinstance(s, str) else s


def u(x):
    """bytes -> str (surrogateescape)"""
    return x.decode("utf-8", "surrogateescape") if isinstance(x, (bytes, bytearray)) else x


# --------------------------------------------------------------------------- content patterns

_BLOCK = bytes((i * 131 + 17) % 251 for i in range(251 * 8))


def content(spec):
    """Deterministic file contents.
    ["base", L, seed]        seed-dependent periodic pattern of length L
    ["flip", L, seed, o]     base with the byte at offset o inverted
    ["lit", "text"]          literal (utf-8, surrogateescape)
    ["hex", "00ff"]          literal hex
    """
    kind = spec[0]
    if kind == "lit":
        return b(spec[1])
    if kind == "hex":
        return bytes.fromhex(spec[1])
    L, seed = spec[1], spec[2]
    if seed:
        blk = bytes((x + seed * 7) % 256 for x in _BLOCK)
    else:
        blk = _BLOCK
    data = (blk * (L // len(blk) + 1))[:L]
    if kind == "base":
        return data
    if kind == "flip":
        o = spec[3]
        assert 0 <= o < L, spec
        ba = bytearray(data)
        ba[o] ^= 0xFF
        return bytes(ba)
    raise ValueError(spec)


# --------------------------------------------------------------------------- scratch

_scratch_counter = itertools.count()


class Scratch:
    """A private scratch directory (tmpfs by default) with an isolated environment for fclones."""

    def __init__(self, base=None):
        base = base or SHM
        self.root = os.path.join(base, "fcv.%d.%d" % (os.getpid(), next(_scratch_counter)))
        if os.path.exists(self.root):
            rmtree(self.root)
        os.makedirs(self.root)
        self.tree = os.path.join(self.root, "t")
        self.envdir = os.path.join(self.root, "env")
        os.makedirs(self.tree)
        for d in ("home", "cache", "config", "tmp"):
            os.makedirs(os.path.join(self.envdir, d))

    def env(self, extra=None):
        e = {
            "PATH": os.path.join(VERIF, "helpers") + ":/usr/local/bin:/usr/bin:/bin",
            "HOME": os.path.join(self.envdir, "home"),
            "XDG_CACHE_HOME": os.path.join(self.envdir, "cache"),
            "XDG_CONFIG_HOME": os.path.join(self.envdir, "config"),
            "TMPDIR": os.path.join(self.envdir, "tmp"),
            "TZ": "UTC",
            "LC_ALL": "C.UTF-8",
            "RUST_BACKTRACE": "0",
        }
        if extra:
            e.update(extra)
        return e

    def path(self, rel):
        return os.path.join(b(self.tree), b(rel))

    def close(self):
        rmtree(self.root)

    def __enter__(self):
        return self

    def __exit__(self, *a):
        self.close()


def unmount_below(path):
    """Lazily unmounts every mount point at or below `path` (deepest first): trees may contain tmpfs instances."""
    path = u(path)
    try:
        with open("/proc/self/mounts", "r", errors="surrogateescape") as f:
            mps = [l.split()[1].replace("\\040", " ") for l in f]
    except OSError:
        return
    for mp in sorted(set(m for m in mps if m == path or m.startswith(path.rstrip("/") + "/")), key=len, reverse=True):
        subprocess.run(["umount", "-l", mp], stdout=subprocess.DEVNULL, stderr=subprocess.DEVNULL)


def rmtree(path):
    unmount_below(path)

    def onerr(func, p, exc):
        try:
            os.chmod(os.path.dirname(p), 0o700)
            os.chmod(p, 0o700)
            func(p)
        except Exception:
            pass
    if os.path.lexists(path):
        if os.path.isdir(path) and not os.path.islink(path):
            shutil.rmtree(path, onerror=onerr)
        else:
            os.unlink(path)


def cleanup_stale_scratch():
    """Removes scratch roots of dead processes."""
    for base in (SHM, EXT4):
        try:
            names = os.listdir(base)
        except OSError:
            continue
        for n in names:
            # scratch roots fcv.<pid>.<n>, and loop images / mount points fcv.<pid>.<name>[.img] of workers that were
            # killed before they could clean up
            m = re.match(r"fcv\.(\d+)\.[A-Za-z0-9_]+(\.img)?$", n)
            if m and not os.path.exists("/proc/%s" % m.group(1)):
                rmtree(os.path.join(base, n))


def make_tree(root, entries):
    """Materialises a tree spec below `root` (bytes or str).
    entry: {"p": relpath, "k": "file"|"dir"|"hard"|"sym"|"sparse"|"tmpfs"|"bind", "c": content spec, "to": target,
            "mtime": ns, "atime": ns, "mode": int}
    Entries are created in list order; parents are created as needed. mtimes of files are set
    explicitly (default 2001-09-09 + index seconds) so that runs are reproducible."""
    root = b(root)
    for i, e in enumerate(entries):
        p = os.path.join(root, b(e["p"]))
        parent = os.path.dirname(p)
        if not os.path.isdir(parent):
            os.makedirs(parent)
        k = e["k"]
        if k == "dir":
            os.makedirs(p, exist_ok=True)
        elif k == "file":
            with open(p, "wb") as f:
                f.write(content(e["c"]))
            if "mode" in e:
                os.chmod(p, e["mode"])
            mt = e.get("mtime", (1_000_000_000 + i) * 1_000_000_000)
            at = e.get("atime", mt)
            os.utime(p, ns=(at, mt))
        elif k == "tmpfs":
            # a fresh tmpfs instance mounted at this directory (inode numbers start over); unmounted by rmtree()
            os.makedirs(p, exist_ok=True)
            if subprocess.run(["mount", "-t", "tmpfs", "none", p], stdout=subprocess.DEVNULL, stderr=subprocess.DEVNULL).returncode != 0:
                raise MachineryError("cannot mount a tmpfs at %r" % p)
        elif k == "bind":
            # the directory e["to"] (relative to the tree) made visible a second time at this path; unmounted by rmtree()
            os.makedirs(p, exist_ok=True)
            if subprocess.run(["mount", "--bind", os.path.join(root, b(e["to"])), p], stdout=subprocess.DEVNULL,
                              stderr=subprocess.DEVNULL).returncode != 0:
                raise MachineryError("cannot bind-mount at %r" % p)
        elif k == "sparse":
            # a file of e["len"] bytes with data only in the given segments [[offset, content spec], ...]: holes elsewhere
            with open(p, "wb") as f:
                for off, spec in e["segs"]:
                    f.seek(off)
                    f.write(content(spec))
                f.truncate(e["len"])
            mt = e.get("mtime", (1_000_000_000 + i) * 1_000_000_000)
            os.utime(p, ns=(mt, mt))
        elif k == "hard":
            os.link(os.path.join(root, b(e["to"])), p)
        elif k == "sym":
            os.symlink(b(e["to"]), p)
        else:
            raise ValueError(e)


def sha(data):
    return hashlib.sha256(data).hexdigest()[:32]


def read_file(p):
    fd = os.open(p, os.O_RDONLY | getattr(os, "O_NOATIME", 0))
    try:
        chunks = []
        while True:
            c = os.read(fd, 1 << 20)
            if not c:
                break
            chunks.append(c)
        return b"".join(chunks)
    finally:
        os.close(fd)


def inventory(*roots, with_times=True):
    """Maps absolute path (str, surrogateescape) -> record for every entry at or below the roots,
    using lstat only."""
    inv = {}

    def add(p):
        try:
            st = os.lstat(p)
        except OSError:
            return
        rec = {"dev": st.st_dev, "ino": st.st_ino, "nlink": st.st_nlink, "len": st.st_size}
        if with_times:
            rec["mtime"] = st.st_mtime_ns
        if stat.S_ISLNK(st.st_mode):
            rec["type"] = "sym"
            rec["target"] = u(os.readlink(p))
        elif stat.S_ISDIR(st.st_mode):
            rec["type"] = "dir"
            rec.pop("len")
            rec.pop("nlink")
        elif stat.S_ISREG(st.st_mode):
            rec["type"] = "file"
            rec["sha"] = sha(read_file(p))
        else:
            rec["type"] = "other"
        inv[u(p)] = rec
        if rec["type"] == "dir":
            try:
                names = sorted(os.listdir(p))
            except OSError:
                return
            for n in names:
                add(os.path.join(p, n))

    for r in roots:
        add(b(r))
    return inv


def inv_diff(a, bb, ignore=("nlink",)):
    """Lists differences between two inventories."""
    out = []
    for p in sorted(set(a) | set(bb)):
        x, y = a.get(p), bb.get(p)
        if x is None:
            out.append(("added", p, y))
        elif y is None:
            out.append(("removed", p, x))
        else:
            xx = {k: v for k, v in x.items() if k not in ignore}
            yy = {k: v for k, v in y.items() if k not in ignore}
            if xx != yy:
                out.append(("changed", p, {k: (x.get(k), y.get(k)) for k in set(x) | set(y)
                                           if x.get(k) != y.get(k) and k not in ignore}))
    return out


# --------------------------------------------------------------------------- running fclones

def run(argv, cwd=None, env=None, stdin=b"", timeout=120, preexec=None):
    """Runs a command; returns (rc, stdout, stderr, timed_out)."""
    try:
        p = subprocess.Popen([b(a) for a in argv], cwd=b(cwd) if cwd else None, env=env,
                             stdin=subprocess.PIPE, stdout=subprocess.PIPE, stderr=subprocess.PIPE,
                             preexec_fn=preexec, start_new_session=True)
    except OSError as e:
        raise MachineryError("cannot spawn %r: %s" % (argv, e))
    try:
        out, err = p.communicate(stdin, timeout=timeout)
        return p.returncode, out, err, False
    except subprocess.TimeoutExpired:
        try:
            os.killpg(p.pid, signal.SIGKILL)
        except OSError:
            pass
        out, err = p.communicate()
        return -9, out, err, True


UNPRIV = ["setpriv", "--reuid=65534", "--regid=65534", "--clear-groups"]


def fclones(args, scratch, cwd=None, stdin=b"", env_extra=None, timeout=120, unpriv=False):
    """unpriv: run as uid/gid 65534 (the scratch root is opened up for that user; the files keep their owner)."""
    env = scratch.env(env_extra)
    if unpriv:
        # (the helper programs are copied into the scratch area: the directory this framework lives in need not be
        # reachable for that user - a snapshot below /root is not)
        pub = os.path.join(u(scratch.root), "helpers")
        if not os.path.isdir(pub):
            shutil.copytree(os.path.join(VERIF, "helpers"), pub)
        env["PATH"] = pub + ":" + env["PATH"]
        subprocess.run(["chmod", "-R", "a+rwX", scratch.root], check=False)
    return run((UNPRIV if unpriv else []) + [FCLONES] + list(args), cwd=cwd or scratch.tree, env=env, stdin=stdin,
               timeout=timeout)


def is_panic(err):
    return b"panicked at" in err or b"RUST_BACKTRACE" in err


# --------------------------------------------------------------------------- report parsers (independent of fclones)

def stfu8_decode(s):
    """Decodes STFU-8 as written by fclones for paths (str -> bytes)."""
    out = bytearray()
    i, n = 0, len(s)
    while i < n:
        c = s[i]
        if c != "\\":
            out += c.encode("utf-8")
            i += 1
            continue
        i += 1
        if i >= n:
            raise ValueError("dangling backslash")
        c = s[i]
        i += 1
        simple = {"\\": b"\\", "t": b"\t", "n": b"\n", "r": b"\r", "0": b"\0", "'": b"'", '"': b'"'}
        if c in simple:
            out += simple[c]
        elif c == "x":
            out.append(int(s[i:i + 2], 16))
            i += 2
        elif c == "u":
            # \u{XXXXXX} or \uXXXXXX ; stfu8 writes \u00XXXX six hex digits
            if s[i] == "{":
                j = s.index("}", i)
                cp = int(s[i + 1:j], 16)
                i = j + 1
            else:
                cp = int(s[i:i + 6], 16)
                i += 6
            if 0xD800 <= cp <= 0xDFFF:
                # ill-formed surrogate encoded WTF-8 style
                out += bytes([0xE0 | (cp >> 12), 0x80 | ((cp >> 6) & 0x3F), 0x80 | (cp & 0x3F)])
            else:
                out += chr(cp).encode("utf-8")
        else:
            raise ValueError("bad escape \\" + c)
    return bytes(out)


class Report:
    def __init__(self):
        self.header = {}
        self.groups = []   # list of {"len": int, "hash": str, "paths": [bytes], "count": int|None}


def parse_json_report(data):
    j = json.loads(data.decode("utf-8"))
    r = Report()
    r.header = j.get("header", {})
    for g in j.get("groups", []):
        r.groups.append({"len": g["file_len"], "hash": g["file_hash"],
                         "paths": [stfu8_decode(p) for p in g["files"]], "count": None})
    return r


_SIZE_UNITS = {"B": 1, "KB": 1000, "MB": 1000 ** 2, "GB": 1000 ** 3, "TB": 1000 ** 4, "PB": 1000 ** 5,
               "KiB": 1024, "MiB": 1024 ** 2, "GiB": 1024 ** 3}


def parse_text_report(data):
    """Parser for the default text format, written from the README's description of the format:
    '# key: value' header lines, then 'hash, N B (X) * count:' followed by 4-space indented paths."""
    r = Report()
    text = data.decode("utf-8")
    lines = text.split("\n")
    if lines and lines[-1] == "":
        lines.pop()
    cur = None
    for ln in lines:
        if ln.endswith("\r"):
            ln = ln[:-1]
        if ln.startswith("#"):
            m = re.match(r"# ([A-Za-z ]+?)(?: by fclones ([^\s]+))?(?:: (.*))?$", ln)
            if m:
                if m.group(2):
                    r.header["version"] = m.group(2)
                else:
                    r.header[m.group(1).strip().lower()] = m.group(3)
            continue
        if ln.startswith("    "):
            if cur is None:
                raise ValueError("path outside group: %r" % ln)
            cur["paths"].append(stfu8_decode(ln[4:]))
            continue
        m = re.match(r"([0-9a-f]+), (\d+) B \(([^)]*)\) \* (\d+):$", ln)
        if not m:
            raise ValueError("unparsable line %r" % ln)
        cur = {"hash": m.group(1), "len": int(m.group(2)), "paths": [], "count": int(m.group(4))}
        r.groups.append(cur)
    return r


def text_header_stats(header):
    """Extracts numbers from the text header: total/redundant/missing."""
    out = {}
    for key in ("total", "redundant", "missing"):
        v = header.get(key)
        if v is None:
            continue
        m = re.match(r"(\d+) B \([^)]*\) in (\d+) files(?: in (\d+) groups)?$", v)
        if not m:
            raise ValueError("bad header stat %r" % v)
        out[key] = (int(m.group(1)), int(m.group(2)), int(m.group(3)) if m.group(3) else None)
    return out


def group_json(args, scratch, **kw):
    """Runs `fclones group ... -f json` and parses the result. Returns (Report|None, rc, stderr)."""
    rc, out, err, to = fclones(["group"] + list(args) + ["-f", "json"], scratch, **kw)
    if to:
        return None, "timeout", err
    if rc != 0:
        return None, rc, err
    try:
        return parse_json_report(out), rc, err
    except Exception as e:
        return None, "parse:%s" % e, err


# --------------------------------------------------------------------------- pool

def _worker_init():
    signal.signal(signal.SIGINT, signal.SIG_IGN)


def _call(args):
    fn, case = args
    t0 = time.time()
    try:
        res = fn(case)
        if res is None:
            res = {}
        res["_t"] = time.time() - t0
        return case, res
    except MachineryError as e:
        return case, {"machinery": str(e)}
    except Exception:
        return case, {"machinery": traceback.format_exc()}


def pmap(fn, cases, jobs=None, chunksize=1):
    """Evaluates fn(case) for every case on a process pool; yields (case, result) in completion order.
    fn must be a module-level function; cases must be picklable."""
    jobs = jobs or JOBS
    cases = list(cases)
    if jobs <= 1 or len(cases) <= 1:
        for c in cases:
            yield _call((fn, c))
        return
    ctx = multiprocessing.get_context("fork")
    with ctx.Pool(jobs, initializer=_worker_init) as pool:
        for r in pool.imap_unordered(_call, [(fn, c) for c in cases], chunksize=chunksize):
            yield r


# --------------------------------------------------------------------------- a second "real" mount (loop-mounted ext4 image)

_loop_ok = None


def can_loop_mount():
    """True if an ext4 image can be created and loop-mounted (needed for cases that want a mount point which
    fclones' own mount table - sysinfo - knows about; tmpfs mounts are invisible to it)."""
    global _loop_ok
    if _loop_ok is None:
        try:
            with LoopMount(os.path.join(EXT4, "fcv.loopprobe.%d" % os.getpid())):
                _loop_ok = True
        except Exception:
            _loop_ok = False
    return _loop_ok


class LoopMount:
    """Creates <mountpoint> backed by a fresh ext4 image next to it and mounts it; removes both on exit."""

    def __init__(self, mountpoint, size_mb=24):
        self.mp = mountpoint
        self.img = mountpoint.rstrip("/") + ".img"
        self.size_mb = size_mb
        self.mounted = False

    def __enter__(self):
        os.makedirs(self.mp, exist_ok=True)
        with open(self.img, "wb") as f:
            f.truncate(self.size_mb << 20)
        for cmd in (["mkfs.ext4", "-q", "-F", self.img], ["mount", "-o", "loop", self.img, self.mp]):
            p = subprocess.run(cmd, stdout=subprocess.PIPE, stderr=subprocess.STDOUT)
            if p.returncode != 0:
                self.__exit__()
                raise MachineryError("loop mount failed: %s: %s" % (" ".join(cmd), p.stdout.decode("utf-8", "replace")[-200:]))
        self.mounted = True
        return self

    def __exit__(self, *a):
        if self.mounted:
            for _ in range(20):
                if subprocess.run(["umount", self.mp], stdout=subprocess.PIPE, stderr=subprocess.PIPE).returncode == 0:
                    break
                time.sleep(0.1)
            else:
                subprocess.run(["umount", "-l", self.mp])
            self.mounted = False
        try:
            os.unlink(self.img)
        except OSError:
            pass
        try:
            os.rmdir(self.mp)
        except OSError:
            pass
