"""Common driver for checks that run the in-process enumerator fcv-unit (engine E3)."""
import json
import os

from . import common as C

UNIT = os.path.join(C.BUILD, "unit", "release", "fcv-unit")


def build():
    C.build_harness("unit", "--cfg fclones_verif")
    if not os.path.exists(UNIT):
        raise C.MachineryError("fcv-unit missing after build")


def run_unit(args, timeout=3600):
    rc, out, err, to = C.run([UNIT] + args, cwd="/", env={"PATH": "/usr/bin:/bin", "LC_ALL": "C.UTF-8"},
                             timeout=timeout)
    if to:
        raise C.MachineryError("fcv-unit %s timed out" % " ".join(args))
    if rc != 0:
        raise C.MachineryError("fcv-unit %s failed rc=%s: %s" % (" ".join(args), rc, err.decode("utf-8", "replace")[-2000:]))
    viol, summary = [], None
    # (split on LF only: str.splitlines() also splits at U+0085, U+2028, FF ... which occur inside the JSON strings)
    for raw in out.split(b"\n"):
        line = raw.decode("utf-8", "replace")
        if not line.strip():
            continue
        j = json.loads(line)
        if j.get("type") == "violation":
            viol.append(j)
        elif j.get("type") == "summary":
            summary = j
    if summary is None:
        raise C.MachineryError("fcv-unit %s printed no summary" % " ".join(args))
    return viol, summary
