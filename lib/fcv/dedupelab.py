"""Shared helpers for checks that drive the dedupe commands (remove / link / link --soft / dedupe / move)."""
import ctypes
import os
import re

from . import common as C

OPS = {
    "remove": ["remove"],
    "link": ["link"],
    "softlink": ["link", "--soft"],
    "dedupe": ["dedupe"],
    "move": ["move"],
}

# --------------------------------------------------------------------------- statx (birth time)

_libc = ctypes.CDLL(None, use_errno=True)


class _StatxTs(ctypes.Structure):
    _fields_ = [("tv_sec", ctypes.c_int64), ("tv_nsec", ctypes.c_uint32), ("pad", ctypes.c_int32)]


class _Statx(ctypes.Structure):
    _fields_ = [("stx_mask", ctypes.c_uint32), ("stx_blksize", ctypes.c_uint32), ("stx_attributes", ctypes.c_uint64),
                ("stx_nlink", ctypes.c_uint32), ("stx_uid", ctypes.c_uint32), ("stx_gid", ctypes.c_uint32),
                ("stx_mode", ctypes.c_uint16), ("pad1", ctypes.c_uint16), ("stx_ino", ctypes.c_uint64),
                ("stx_size", ctypes.c_uint64), ("stx_blocks", ctypes.c_uint64), ("stx_attributes_mask", ctypes.c_uint64),
                ("stx_atime", _StatxTs), ("stx_btime", _StatxTs), ("stx_ctime", _StatxTs), ("stx_mtime", _StatxTs),
                ("rest", ctypes.c_uint64 * 20)]


def times(path):
    """Returns dict of ns timestamps: atime, btime (None if unsupported), ctime, mtime."""
    buf = _Statx()
    AT_FDCWD, STATX_ALL = -100, 0xfff
    r = _libc.statx(AT_FDCWD, C.b(path), 0, STATX_ALL, ctypes.byref(buf))
    if r != 0:
        raise OSError(ctypes.get_errno(), "statx failed", path)

    def ns(t):
        return t.tv_sec * 1_000_000_000 + t.tv_nsec
    return {"atime": ns(buf.stx_atime), "ctime": ns(buf.stx_ctime), "mtime": ns(buf.stx_mtime),
            "btime": ns(buf.stx_btime) if buf.stx_mask & 0x800 else None}


# --------------------------------------------------------------------------- shell tokenizer for dry-run scripts

def shell_split(line):
    """Splits one line of a dry-run script into words (bytes). Supports bare words, '...', "..." and $'...'
    with the escapes fclones writes (\\\\ \\' \\n \\t \\r \\xHH \\u{..}). Independent of fclones' own splitter."""
    words = []
    cur = None
    i, n = 0, len(line)
    while i < n:
        c = line[i]
        if c in " \t":
            if cur is not None:
                words.append(bytes(cur))
                cur = None
            i += 1
            continue
        if cur is None:
            cur = bytearray()
        if c == "'":
            j = line.index("'", i + 1)
            cur += line[i + 1:j].encode("utf-8")
            i = j + 1
        elif c == '"':
            j = i + 1
            while line[j] != '"':
                if line[j] == "\\" and line[j + 1] in '$`"\\':
                    j += 1
                cur += line[j].encode("utf-8")
                j += 1
            i = j + 1
        elif c == "$" and i + 1 < n and line[i + 1] == "'":
            j = i + 2
            while line[j] != "'":
                if line[j] == "\\":
                    e = line[j + 1]
                    if e == "x":
                        cur.append(int(line[j + 2:j + 4], 16))
                        j += 4
                    elif e == "u":
                        k = line.index("}", j) if line[j + 2] == "{" else j + 8
                        cp = int(line[j + 3:k], 16) if line[j + 2] == "{" else int(line[j + 2:j + 8], 16)
                        cur += chr(cp).encode("utf-8")
                        j = k + 1 if line[j + 2] == "{" else j + 8
                    else:
                        cur += {"n": b"\n", "t": b"\t", "r": b"\r", "\\": b"\\", "'": b"'", '"': b'"', "0": b"\0"}[e]
                        j += 2
                else:
                    cur += line[j].encode("utf-8")
                    j += 1
            i = j + 1
        elif c == "\\":
            cur += line[i + 1].encode("utf-8")
            i += 2
        else:
            cur += c.encode("utf-8")
            i += 1
    if cur is not None:
        words.append(bytes(cur))
    return words


TMP_RE = re.compile(rb"\.[A-Za-z0-9]{24}$")


def _is_replacement(w, line2, line3):
    """`mv FILE TMP` followed by a link/clone command that re-creates FILE and by `rm TMP`, TMP next to FILE."""
    import os
    try:
        w2, w3 = shell_split(line2), shell_split(line3)
    except (ValueError, IndexError, KeyError):
        return False
    if len(w3) != 2 or w3[0] != b"rm" or w3[1] != w[2] or os.path.dirname(w[2]) != os.path.dirname(w[1]):
        return False
    if w2[:2] == [b"ln", b"-s"] and len(w2) == 4:
        return w2[3] == w[1]
    if w2[0] == b"ln" and len(w2) == 3:
        return w2[2] == w[1]
    if w2[0] == b"cp" and len(w2) == 4 and w2[1].startswith(b"--reflink"):
        return w2[3] == w[1]
    return False


def parse_script(text):
    """Parses a dry-run script into operations: list of {"kind", "file", "target"}.
    kind: remove | hardlink | softlink | reflink | move_rename | move_copy."""
    lines = [l for l in text.split("\n") if l.strip()]
    ops = []
    i = 0
    while i < len(lines):
        w = shell_split(lines[i])
        if w[0] == b"rm" and len(w) == 2:
            ops.append({"kind": "remove", "file": w[1], "target": None})
            i += 1
        elif w[0] == b"mv" and len(w) == 3 and i + 2 < len(lines) and _is_replacement(w, lines[i + 1], lines[i + 2]):
            # mv FILE TMP; ln [-s] TARGET FILE | cp --reflink=... TARGET FILE; rm TMP   (TMP: a sibling of FILE, any name)
            w2 = shell_split(lines[i + 1])
            if w2[0] == b"ln" and w2[1] == b"-s":
                kind, tgt, link = "softlink", w2[2], w2[3]
            elif w2[0] == b"ln":
                kind, tgt, link = "hardlink", w2[1], w2[2]
            else:
                kind, tgt, link = "reflink", w2[2], w2[3]
            ops.append({"kind": kind, "file": link, "target": tgt})
            i += 3
        elif w[0] == b"mv" and len(w) == 3:
            ops.append({"kind": "move_rename", "file": w[1], "target": w[2]})
            i += 1
        elif w[0] == b"cp" and len(w) == 3 and i + 1 < len(lines):
            w2 = shell_split(lines[i + 1])
            if w2[0] != b"rm" or w2[1] != w[1]:
                raise ValueError("unexpected script shape at %r" % lines[i:i + 2])
            ops.append({"kind": "move_copy", "file": w[1], "target": w[2]})
            i += 2
        else:
            raise ValueError("unexpected script line %r" % lines[i])
    return ops


SUMMARY_RE = re.compile(r"(?:Would process|Processed) (\d+) files and (?:reclaim|reclaimed) (?:up to )?(.+?) space")


def parse_summary(stderr_text):
    m = None
    for m in SUMMARY_RE.finditer(stderr_text):
        pass
    if not m:
        return None
    return int(m.group(1)), m.group(2)


WARN_RE = re.compile(r"\bwarn(ing)?\b|\berror\b", re.I)


def warnings(stderr_text):
    """Log lines at warning (or error) level, whatever the exact layout of the log prefix is."""
    return [l for l in stderr_text.splitlines() if WARN_RE.search(l)]


# --------------------------------------------------------------------------- running

def make_report(scratch, group_args, roots, fmt="default", cwd=None, env_extra=None, stdin_roots=False):
    args = ["group"] + list(group_args) + (["--stdin"] if stdin_roots else list(roots))
    if fmt == "json":
        args += ["-f", "json"]
    rc, out, err, to = C.fclones(args, scratch, cwd=cwd, env_extra=env_extra,
                                 stdin=("\n".join(roots) + "\n").encode() if stdin_roots else b"")
    if to or rc != 0:
        raise C.MachineryError("group failed while preparing a report: rc=%s %s" % (rc, err[-400:]))
    return out


def run_dedupe(scratch, op, opts, report, dry_run=False, cwd=None, env_extra=None, target=None, timeout=120):
    args = list(OPS[op]) + list(opts)
    if dry_run:
        args.append("--dry-run")
    if op == "move":
        args.append(target)
    env = {"RAYON_NUM_THREADS": "1"}
    if env_extra:
        env.update(env_extra)
    rc, out, err, to = C.fclones(args, scratch, cwd=cwd, stdin=report, env_extra=env, timeout=timeout)
    return {"rc": rc, "out": out.decode("utf-8", "surrogateescape"), "err": err.decode("utf-8", "replace"),
            "timeout": to}


def report_groups(report):
    """Parses a text or JSON report with the independent parsers."""
    if report.lstrip().startswith(b"{"):
        return C.parse_json_report(report)
    return C.parse_text_report(report)
