"""Check driver: enumerates cases, evaluates them on a pool, re-executes every violating case,
matches violations against known_findings.json, writes replays and evidence, prints the verdict.

A check module provides:
  ID, LEVEL ("exploration" | "fault_enumeration" | "model_checking"), RULE (str), ASSUMPTIONS [str]
  prepare(tier) -> None                       builds what is needed (may raise MachineryError)
  cases(tier, seed) -> iterable of JSON-able case dicts
  evaluate(case) -> {"violations": [ {"kind":..., <features>..., "detail": str} ],
                     "nontrivial": key-or-None,   # hashable/JSON-able key of the non-trivial case class
                     "outcome": str,              # coarse outcome label (vacuity statistics)
                     "states": int, "transitions": int   (model_checking only; optional)}
  finish(stats) -> optional list of vacuity complaints (str); non-empty => machinery exit 2
"""
import argparse
import hashlib
import importlib
import json
import os
import sys
import time

from . import common as C

KNOWN = os.path.join(C.VERIF, "known_findings.json")
REPLAYS = os.environ.get("FCV_REPLAYS", os.path.join(C.VERIF, "replays"))
EVIDENCE = os.environ.get("FCV_EVIDENCE", os.path.join(C.VERIF, "evidence"))
MAX_REPORTED = 40


def load_findings(prop):
    try:
        with open(KNOWN) as f:
            data = json.load(f)
    except FileNotFoundError:
        return []
    return [e for e in data.get("findings", []) if e.get("property") == prop]


def match_finding(violation, findings):
    """An entry matches iff every feature in its `match` equals the violation's feature.
    Only status == "known" entries suppress; "fixed" entries never do."""
    for e in findings:
        if e.get("status") != "known":
            continue
        m = e.get("match", {})
        if m and all(violation.get(k) == v for k, v in m.items()):
            return e
    return None


def vkey(v):
    return json.dumps({k: x for k, x in v.items() if k not in ("detail", "replay_case")}, sort_keys=True,
                      default=str)


def write_replay(prop, case, violation):
    d = os.path.join(REPLAYS, prop)
    os.makedirs(d, exist_ok=True)
    blob = json.dumps({"property": prop, "case": case, "violation": violation}, indent=1, sort_keys=True,
                      default=str)
    name = hashlib.sha256(blob.encode()).hexdigest()[:16] + ".json"
    p = os.path.join(d, name)
    with open(p, "w") as f:
        f.write(blob)
    return p


def write_evidence(mod, tier, seed, coverage, wall, nviol, extra_assumptions=()):
    os.makedirs(EVIDENCE, exist_ok=True)
    ev = {
        "property_id": mod.ID,
        "tier": tier,
        "seed": seed,
        "level": mod.LEVEL,
        "coverage": coverage,
        "assumptions": list(getattr(mod, "ASSUMPTIONS", [])) + list(extra_assumptions),
        "wall_s": round(wall, 2),
        "violations": nviol,
    }
    tmp = os.path.join(EVIDENCE, mod.ID + ".json.tmp")
    with open(tmp, "w") as f:
        json.dump(ev, f, indent=1, sort_keys=True, default=str)
        f.write("\n")
    os.replace(tmp, os.path.join(EVIDENCE, mod.ID + ".json"))


def run_check(mod, tier, seed, jobs=None, limit=None, verbose=False):
    t0 = time.time()
    C.cleanup_stale_scratch()
    mod.prepare(tier)
    cases = list(mod.cases(tier, seed))
    if seed and getattr(mod, "ROTATE", True) and cases:
        k = seed % len(cases)
        cases = cases[k:] + cases[:k]
    if limit:
        cases = cases[:limit]
    findings = load_findings(mod.ID)
    stats = {"evaluations": 0, "nontrivial": set(), "outcomes": {}, "states": 0, "transitions": 0,
             "machinery": [], "unreproduced": 0, "samples": []}
    violations = []   # (case, violation)
    seen_v = set()
    last = time.time()
    total = len(cases)
    evaluate = mod.evaluate
    for case, res in C.pmap(evaluate, cases, jobs=jobs, chunksize=getattr(mod, "CHUNK", 1)):
        stats["evaluations"] += res.get("evaluations", 1)
        stats.setdefault("slow", []).append((res.get("_t", 0), case))
        if "machinery" in res:
            stats["machinery"].append((case, res["machinery"]))
            if len(stats["machinery"]) > 5:
                break
            continue
        nt = res.get("nontrivial")
        if nt is not None:
            if isinstance(nt, (list, tuple)) and nt and isinstance(nt[0], (list, tuple)):
                for x in nt:
                    stats["nontrivial"].add(json.dumps(x, sort_keys=True, default=str))
            else:
                stats["nontrivial"].add(json.dumps(nt, sort_keys=True, default=str))
        oc = res.get("outcome")
        if oc is not None:
            for o in (oc if isinstance(oc, list) else [oc]):
                stats["outcomes"][o] = stats["outcomes"].get(o, 0) + 1
        stats["states"] += res.get("states", 0)
        stats["transitions"] += res.get("transitions", 0)
        if len(stats["samples"]) < 3 and res.get("sample") is not None:
            stats["samples"].append(res["sample"])
        for k2, v2 in res.get("counters", {}).items():
            stats.setdefault("counters", {})
            stats["counters"][k2] = stats["counters"].get(k2, 0) + v2
        for v in res.get("violations", []):
            violations.append((case, v))
        if verbose and time.time() - last > 5:
            last = time.time()
            sys.stderr.write("  %d/%d cases, %d raw violations\n" % (stats["evaluations"], total, len(violations)))
    if verbose:
        for t, c in sorted(stats.get("slow", []), key=lambda x: -x[0])[:12]:
            sys.stderr.write("  %.1fs %s\n" % (t, json.dumps(c, default=str)[:200]))
    machinery_failed = False
    if stats["machinery"]:
        case, msg = stats["machinery"][0]
        sys.stderr.write("MACHINERY ERROR in %s: %s\ncase: %s\n" % (mod.ID, msg, json.dumps(case, default=str)[:2000]))
        # A case the machinery could not evaluate is never a verdict - but it does not erase a violation that OTHER
        # cases showed on real executions (confirmed by re-execution below): those are still reported, exit status 1.
        # Without such a violation the run ends with the machinery status and writes no evidence.
        machinery_failed = True
        if not violations:
            return C.EXIT_MACHINERY

    # -- confirm each distinct violation by re-executing its case (bounded work: one per signature)
    confirmed = []
    by_sig = {}
    for case, v in violations:
        by_sig.setdefault(vkey(v), []).append((case, v))
    recheck = []
    for sig, lst in by_sig.items():
        recheck.append(lst[0])
    reproduced = {}
    if getattr(mod, "RECHECK", True):
        for case, res in C.pmap(evaluate, [c for c, _ in recheck], jobs=jobs):
            sigs = set(vkey(v) for v in res.get("violations", []))
            reproduced[json.dumps(case, sort_keys=True, default=str)] = sigs
    for case, v in recheck:
        ck = json.dumps(case, sort_keys=True, default=str)
        if (not getattr(mod, "RECHECK", True)) or vkey(v) in reproduced.get(ck, set()):
            confirmed.extend(by_sig[vkey(v)])
        else:
            stats["unreproduced"] += len(by_sig[vkey(v)])
            sys.stderr.write("note: violation did not reproduce on re-execution, dropped: %s\n" % vkey(v)[:400])

    known_hits = {}
    unknown = []
    for case, v in confirmed:
        e = match_finding(v, findings)
        if e is not None:
            known_hits.setdefault(e["id"], [e, 0, case, v])
            known_hits[e["id"]][1] += 1
        else:
            unknown.append((case, v))

    for fid, (e, n, case, v) in sorted(known_hits.items()):
        print("KNOWN-FINDING: property=%s %s [%s; %d case(s) in this run]" % (mod.ID, e["what"], fid, n))
    # one VIOLATION line per distinct signature
    printed = set()
    for case, v in unknown:
        k = vkey(v)
        if k in printed:
            continue
        printed.add(k)
        if len(printed) > MAX_REPORTED:
            break
        p = write_replay(mod.ID, v.get("replay_case", case), v)
        print("VIOLATION property=%s replay=%s" % (mod.ID, p))
        print("  " + json.dumps({kk: vv for kk, vv in v.items()}, sort_keys=True, default=str)[:1500])

    if machinery_failed and not printed:
        return C.EXIT_MACHINERY
    complaints = []
    if hasattr(mod, "finish"):
        complaints = mod.finish(stats, tier) or []

    wall = time.time() - t0
    samples = stats["samples"] or [json.loads(json.dumps(c, default=str)) for c in cases[:2]]
    coverage = {
        "evaluations": stats["evaluations"],
        "distinct_nontrivial": len(stats["nontrivial"]),
        "rule": mod.RULE,
        "samples": samples[:3],
        "exhaustive": True,
        "cases_enumerated": total,
        "outcomes": stats["outcomes"],
        "known_finding_cases": {fid: h[1] for fid, h in known_hits.items()},
        "unreproduced_dropped": stats["unreproduced"],
    }
    if "counters" in stats:
        coverage["counters"] = stats["counters"]
    if mod.LEVEL == "model_checking":
        coverage["states"] = stats["states"]
        coverage["transitions"] = stats["transitions"]
        coverage["traces_validated_against_impl"] = stats["states"]
        coverage["explanation"] = ("every explored state/trace is an execution of the implementation itself "
                                   "(no separate model), so all of them are validated by construction")
    if hasattr(mod, "coverage_extra"):
        coverage.update(mod.coverage_extra(stats, tier))
    write_evidence(mod, tier, seed, coverage, wall, len(printed))
    sys.stderr.write("%s %s: %d cases, %d evaluations, %d distinct non-trivial, %d known-finding cases, "
                     "%d new violation signatures, %.1fs\n"
                     % (mod.ID, tier, total, stats["evaluations"], len(stats["nontrivial"]),
                        sum(h[1] for h in known_hits.values()), len(printed), wall))
    if complaints:
        for c in complaints:
            sys.stderr.write("VACUITY: %s\n" % c)
        return 1 if printed else C.EXIT_MACHINERY
    return 1 if printed else 0


def replay(mod, path):
    with open(path) as f:
        data = json.load(f)
    mod.prepare("quick")
    res = mod.evaluate(data["case"])
    if "machinery" in res:
        sys.stderr.write(res["machinery"] + "\n")
        return C.EXIT_MACHINERY
    vs = res.get("violations", [])
    for v in vs:
        print("VIOLATION property=%s replay=%s" % (mod.ID, path))
        print("  " + json.dumps(v, sort_keys=True, default=str)[:3000])
    if not vs:
        print("no violation on replay")
    return 1 if vs else 0


def main(argv=None):
    ap = argparse.ArgumentParser()
    ap.add_argument("prop")
    ap.add_argument("--tier", default=os.environ.get("VERIF_TIER", "quick"), choices=["quick", "thorough"])
    ap.add_argument("--replay")
    ap.add_argument("--jobs", type=int)
    ap.add_argument("--limit", type=int)
    ap.add_argument("-v", "--verbose", action="store_true")
    a = ap.parse_args(argv)
    seed = int(os.environ.get("VERIF_SEED", "0") or 0)
    mod = importlib.import_module("fcv.checks." + a.prop.lower())
    try:
        if a.replay:
            return replay(mod, a.replay)
        return run_check(mod, a.tier, seed, jobs=a.jobs, limit=a.limit, verbose=a.verbose)
    except C.MachineryError as e:
        sys.stderr.write("MACHINERY ERROR: %s\n" % e)
        return C.EXIT_MACHINERY
