"""Shared runner and reference models for checks driving `fclones group` on small trees (engine E2)."""
import os
import stat

from . import common as C


# --------------------------------------------------------------------------- transforms (oracle side)

def tr_apply(op, data):
    if op in ("keep", "fail", "slowkeep", "barrierkeep", "failonce", "litter"):
        return data
    if op == "shrink":
        return data[:2]
    if op == "double":
        return bytes(b for x in data for b in (x, x))
    if op == "prefix":
        return b"FCVPREFIX" + data
    if op in ("ignore", "const"):
        return b"constant"
    raise ValueError(op)


TRANSFORM_MODES = {
    # mode: (command template, extra args)
    "pipe": ("fcv-tr {op}", []),
    "in": ("fcv-tr {op} $IN", []),
    "out": ("fcv-tr {op} - $OUT", []),
    "inout": ("fcv-tr {op} $IN $OUT", []),
    "inplace": ("fcv-tr-inplace {op} $IN", ["--in-place"]),
}


def transform_args(op, mode):
    tpl, extra = TRANSFORM_MODES[mode]
    return ["--transform", tpl.format(op=op)] + extra


# --------------------------------------------------------------------------- running group

def run_group(case, scratch=None, keep=False):
    """case: {"tree": [...], "roots": [rel...], "args": [...], "env": {...}, "cwd": rel or None,
              "ext4": bool, "repeat": n, "stdin": text}
    Returns obs dict: rc, err, report (common.Report or None), reports (all runs), tree_root."""
    own = scratch is None
    if own:
        scratch = C.Scratch(C.EXT4 if case.get("ext4") else None)
    try:
        C.make_tree(scratch.tree, case["tree"])
        cwd = os.path.join(scratch.tree, case["cwd"]) if case.get("cwd") else scratch.tree
        args = list(case.get("args", [])) + list(case.get("roots", []))
        if case.get("stdin_roots"):
            # the input paths come on standard input instead of the command line
            args = list(case.get("args", [])) + ["--stdin"]
            case = dict(case, stdin="\n".join(case.get("roots", [])) + "\n")
        obs = {"runs": []}
        for _ in range(case.get("repeat", 1)):
            rc, out, err, to = C.fclones(["group"] + args + ["-f", "json"], scratch, cwd=cwd,
                                         env_extra=case.get("env"), stdin=C.b(case.get("stdin", "")),
                                         timeout=case.get("timeout", 120), unpriv=bool(case.get("unpriv")))
            run = {"rc": rc, "err": err.decode("utf-8", "replace"), "timeout": to, "report": None}
            if rc == 0 and not to:
                try:
                    run["report"] = C.parse_json_report(out)
                except Exception as e:
                    run["parse_error"] = str(e)
            obs["runs"].append(run)
        obs.update(obs["runs"][-1])
        obs["tree_root"] = scratch.tree
        if keep:
            obs["scratch"] = scratch
        else:
            obs["files"] = scan_reference(scratch.tree, case)
        return obs
    finally:
        if own and not keep:
            scratch.close()


# --------------------------------------------------------------------------- reference scan for simple trees

def scan_reference(tree_root, case):
    """Reference list of scanned files for *simple* trees: every regular file (and, with -S, every
    symlink whose target is a regular file) at or below the given roots (within --depth, if given: a file is selected
    if SOME root reaches it within the limit); no hidden files, no ignore files (those belong to C09's reference walk).
    Returns {abs path (str): {"dev","ino","len","data"(bytes),"root": index of first root holding it}}."""
    args = case.get("args", [])
    report_links = "-S" in args or "--symbolic-links" in args
    cwd = os.path.join(tree_root, case["cwd"]) if case.get("cwd") else tree_root
    files = {}
    roots = []
    for r in case.get("roots", []):
        ap = os.path.normpath(os.path.join(cwd, r))
        roots.append(os.path.realpath(ap) if os.path.isdir(ap) else
                     os.path.join(os.path.realpath(os.path.dirname(ap)), os.path.basename(ap)))

    def add(p, ri):
        try:
            lst = os.lstat(p)
        except OSError:
            return
        if stat.S_ISLNK(lst.st_mode):
            if not report_links:
                return
            try:
                st = os.stat(p)
            except OSError:
                return
            if not stat.S_ISREG(st.st_mode):
                return
        elif stat.S_ISREG(lst.st_mode):
            st = lst
        else:
            return
        if p not in files:
            files[p] = {"dev": st.st_dev, "ino": st.st_ino, "len": st.st_size, "data": C.read_file(p), "root": ri,
                        "is_link": stat.S_ISLNK(lst.st_mode)}

    depth = flag_value(args, "--depth")
    depth = int(depth) if depth is not None else None
    for ri, r in enumerate(roots):
        if os.path.isdir(r):
            for dp, dns, fns in os.walk(r):
                dns.sort()
                level = 0 if dp == r else dp[len(r):].strip("/").count("/") + 1    # level of this directory below the root
                if depth is not None and level + 1 > depth:
                    # --depth N: files directly inside an input directory are at depth 1
                    dns[:] = []
                    continue
                for fn in sorted(fns):
                    add(os.path.join(dp, fn), ri)
        else:
            add(r, ri)
    return {"files": files, "roots": roots}


def flag_value(args, *names):
    for i, a in enumerate(args):
        if a in names and i + 1 < len(args):
            return args[i + 1]
    return None


def expected_groups(ref, case, transform_op=None):
    """Reference result of `group`: list of {"len", "paths": frozenset, "count"} that must be reported.
    Written from the property statements C03/C06 and the README, not from the code."""
    args = case.get("args", [])
    files, roots = ref["files"], ref["roots"]
    isolate = "--isolate" in args or "-I" in args
    match_links = "--match-links" in args or "-H" in args
    min_size = flag_value(args, "--min", "-s")
    min_size = int(min_size) if min_size is not None else 1
    max_size = flag_value(args, "--max")
    max_size = int(max_size) if max_size is not None else None
    classes = {}
    for p, f in files.items():
        if f["len"] < min_size or (max_size is not None and f["len"] > max_size):
            continue
        data = tr_apply(transform_op, f["data"]) if transform_op else f["data"]
        classes.setdefault(data, []).append(p)
    rf_over = flag_value(args, "--rf-over", "-n")
    rf_under = flag_value(args, "--rf-under")
    unique = "--unique" in args
    out = []
    for data, paths in classes.items():
        if isolate:
            count = len(set(files[p]["root"] for p in paths))
        elif match_links:
            count = len(paths)
        else:
            count = len(set((files[p]["dev"], files[p]["ino"]) for p in paths))
        if unique:
            rep = count < 2
        elif rf_under is not None:
            rep = count < int(rf_under)
        else:
            rep = count > (int(rf_over) if rf_over is not None else 1)
        out.append({"len": len(data), "paths": frozenset(paths), "count": count, "reported": rep})
    return out


def observed_groups(report):
    return [{"len": g["len"], "hash": g["hash"], "paths": [C.u(p) for p in g["paths"]]} for g in report.groups]
