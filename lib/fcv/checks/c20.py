"""C20 Files locked by another process are left alone (shape I, engine E2 + lock holder process)."""
import itertools
import os
import subprocess
import sys

from .. import common as C
from .. import dedupelab as D
from .. import shimlab as S

ID = "C20"
LEVEL = "exploration"
RULE = ("two (quick) / three (thorough) groups of 3 identical files; every subset of the droppable members locked by a "
        "foreign process holding fcntl write locks or read (shared) locks on the whole file (classic per-process locks and open-file-description locks, F_OFD_SETLK), or exclusive locks on a byte range (first byte, last byte, at the end of the data, far beyond it) x op {remove, link, link --soft, dedupe, "
        "move, move to a directory on another mount point known to fclones (loop-mounted ext4 image)} x {default, --no-lock}; and a group in which the locked file has three hard-linked names among the droppable members (report made with and without -H, lock taken through each name). and the same run by an unprivileged user (setpriv, uid 65534) with the locked members read-only (0444) or writable for that user. Every run is traced by the interposer: no rename / link / unlink / truncate may touch a locked file even temporarily. Oracle (a lock is on the file: every name of a locked inode counts as locked): locked members keep inode, bytes and path and are named in a warning; "
        "every other droppable member is processed; with --no-lock every droppable member is processed. "
        "Non-trivial = at least one member locked; distinct by (subset, lock type, op, flag).")
ASSUMPTIONS = ["for `dedupe` on a file system without reflink support only 'locked members untouched' can be checked",
               "advisory locks only (fcntl); mandatory locking is not a Linux feature any more"]

HOLDER = r'''
import fcntl, sys, os
mode = sys.argv[1]
fds = []
for p in sys.argv[2:]:
    fd = os.open(os.fsencode(p), os.O_RDWR)
    size = os.fstat(fd).st_size
    if mode in ("write", "read"):
        fcntl.lockf(fd, fcntl.LOCK_EX if mode == "write" else fcntl.LOCK_SH)
    elif mode in ("ofd_write", "ofd_read"):
        # open-file-description lock (F_OFD_SETLK): owned by the descriptor, reported with l_pid = -1
        import struct
        fcntl.fcntl(fd, fcntl.F_OFD_SETLK, struct.pack("hhqqi", fcntl.F_WRLCK if mode == "ofd_write" else fcntl.F_RDLCK,
                                                       os.SEEK_SET, 0, 0, 0))
    elif mode == "range_first_byte":
        fcntl.lockf(fd, fcntl.LOCK_EX, 1, 0, os.SEEK_SET)
    elif mode == "range_last_byte":
        fcntl.lockf(fd, fcntl.LOCK_EX, 1, max(size - 1, 0), os.SEEK_SET)
    elif mode == "range_at_eof":
        fcntl.lockf(fd, fcntl.LOCK_EX, 10, size, os.SEEK_SET)           # [size, size+10): beyond the data
    elif mode == "range_far_beyond_eof":
        fcntl.lockf(fd, fcntl.LOCK_EX, 512, 0x40000000, os.SEEK_SET)    # where SQLite keeps its lock bytes
    fds.append(fd)
sys.stdout.write("ready\n"); sys.stdout.flush()
sys.stdin.read()
'''


def prepare(tier):
    S.prepare()


def tree(ngroups):
    t = []
    for g in range(ngroups):
        for j, d in enumerate(("r/a", "r/b", "r/c")):
            t.append({"p": "%s/g%d_%d" % (d, g, j), "k": "file", "c": ["base", 40 + g, g + 1]})
    return t


LINKS_TREE = [
    {"p": "r/a/k0", "k": "file", "c": ["base", 50, 9]},
    {"p": "r/b/h1", "k": "file", "c": ["base", 50, 9]}, {"p": "r/b/h2", "k": "hard", "to": "r/b/h1"},
    {"p": "r/c/h3", "k": "hard", "to": "r/b/h1"}, {"p": "r/c/k2", "k": "file", "c": ["base", 50, 9]},
]
LINKS_DROPPABLE = ["r/b/h1", "r/b/h2", "r/c/h3", "r/c/k2"]
SYMLINK_TREE = [{"p": "r/a/keep", "k": "file", "c": ["base", 50, 9]}, {"p": "r/b/dup", "k": "file", "c": ["base", 50, 9]},
                {"p": "r/c/L", "k": "sym", "to": "../b/dup"}]


def cases(tier, seed):
    quick = tier == "quick"
    ng = 2 if quick else 3
    droppable = ["r/b/g%d_1" % g for g in range(ng)] + ["r/c/g%d_2" % g for g in range(ng)]
    out = []
    for mode in ("write", "read"):
        for r in range(len(droppable) + 1):
            for sub in itertools.combinations(droppable, r):
                for op in ("remove", "link", "softlink", "dedupe", "move", "move_other_mount"):
                    for nolock in (False, True):
                        out.append({"ngroups": ng, "locked": list(sub), "mode": mode, "op": op, "no_lock": nolock,
                                    "droppable": droppable})
    # byte-range locks (a database locking single bytes, possibly beyond the end of the data)
    # ... and open-file-description locks (fcntl F_OFD_SETLK): they conflict with classic locks of other processes
    for mode in ("range_first_byte", "range_last_byte", "range_at_eof", "range_far_beyond_eof", "ofd_write", "ofd_read"):
        for sub in (["r/b/g0_1"], ["r/b/g0_1", "r/c/g1_2"]):
            for op in ("remove", "link", "softlink", "move") + (("dedupe", "move_other_mount") if mode.startswith("ofd") else ()):
                out.append({"ngroups": 2, "locked": sub, "mode": mode, "op": op, "no_lock": False,
                            "droppable": ["r/b/g0_1", "r/b/g1_1", "r/c/g0_2", "r/c/g1_2"]})
    # one group lies where advisory locks are "not supported" (EOPNOTSUPP from fcntl, as on some network / FUSE file
    # systems; fclones then works without a lock there), the other group's droppable members are locked by a foreign
    # process: what happens to the first group may not change how the second is treated - in either processing order
    for unsup, locked in (("g1_", ["r/b/g0_1", "r/c/g0_2"]), ("g0_", ["r/b/g1_1", "r/c/g1_2"]), ("g1_", ["r/b/g0_1"])):
        for mode in ("write", "read"):
            for op in ("remove", "link", "softlink", "dedupe", "move"):
                out.append({"ngroups": 2, "locked": locked, "mode": mode, "op": op, "no_lock": False,
                            "droppable": ["r/b/g0_1", "r/b/g1_1", "r/c/g0_2", "r/c/g1_2"], "lock_unsupported": unsup})
    # a reported symbolic link (-S) to a locked file: removing / replacing / moving the LINK does not touch the file,
    # but `dedupe` clones THROUGH the link - over the locked file
    for mode in ("write", "read"):
        for op in ("remove", "link", "softlink", "dedupe", "move"):
            for locked in (["r/b/dup"], []):
                out.append({"ngroups": 0, "locked": locked, "mode": mode, "op": op, "no_lock": False, "symlink_tree": True,
                            "droppable": ["r/b/dup", "r/c/L"], "gargs": ["-S"]})
    # a locked file that has several names among the droppable members (hard links; report with and without -H)
    for mode in ("write", "read"):
        for sub in ([], ["r/b/h1"], ["r/b/h2"], ["r/c/h3"], ["r/c/k2"], ["r/b/h1", "r/c/k2"]):
            for op in ("remove", "link", "softlink", "dedupe", "move", "move_other_mount"):
                for nolock in (False, True):
                    for gargs in ([], ["-H"]):
                        out.append({"ngroups": 0, "locked": sub, "mode": mode, "op": op, "no_lock": nolock,
                                    "droppable": LINKS_DROPPABLE, "links": True, "gargs": gargs})
    # fclones run by an unprivileged user; the locked duplicate is read-only for that user (0444 in a writable
    # directory): opening it for writing - which the lock needs - fails with EACCES before any lock is tried
    for mode in ("write", "read"):
        for sub in ([], ["r/b/g0_1"], ["r/b/g0_1", "r/c/g1_2"]):
            for op in ("remove", "link", "softlink", "move"):
                for ro in (True, False):
                    out.append({"ngroups": 2, "locked": sub, "mode": mode, "op": op, "no_lock": False,
                                "droppable": ["r/b/g0_1", "r/b/g1_1", "r/c/g0_2", "r/c/g1_2"], "unpriv": True, "readonly": ro})
    return out


_unpriv_ok = None


def can_unpriv():
    """setpriv present and an unprivileged user can run the binary and reach the ext4 scratch area."""
    global _unpriv_ok
    if _unpriv_ok is None:
        try:
            r = subprocess.run(["setpriv", "--reuid=65534", "--regid=65534", "--clear-groups", C.FCLONES, "--version"],
                               stdout=subprocess.PIPE, stderr=subprocess.PIPE, cwd=C.EXT4)
            _unpriv_ok = r.returncode == 0
        except OSError:
            _unpriv_ok = False
    return _unpriv_ok


def evaluate_unpriv(case):
    viol = []
    feat = {"op": case["op"], "lock_type": case["mode"], "no_lock": False, "unprivileged_user": True,
            "locked_file_read_only": case["readonly"]}
    if not can_unpriv():
        return {"violations": [], "nontrivial": None, "outcome": "skipped_no_setpriv"}
    with C.Scratch(C.EXT4) as sc:
        C.make_tree(sc.tree, tree(case["ngroups"]))
        report = D.make_report(sc, [], ["r"])
        target = os.path.join(sc.root, "moved")
        if case["readonly"]:
            for rel in case["droppable"]:
                os.chmod(sc.path(rel), 0o444)
        subprocess.run(["chmod", "-R", "a+rwX", sc.root], check=True)
        if case["readonly"]:
            for rel in case["droppable"]:
                os.chmod(sc.path(rel), 0o444)
        before = C.inventory(sc.tree)
        holder = None
        try:
            if case["locked"]:
                holder = subprocess.Popen([sys.executable, "-c", HOLDER, case["mode"]] +
                                          [sc.path(p).decode() for p in case["locked"]],
                                          stdin=subprocess.PIPE, stdout=subprocess.PIPE)
                if holder.stdout.readline().strip() != b"ready":
                    raise C.MachineryError("lock holder failed")
            args = list(D.OPS[case["op"]]) + ([target] if case["op"] == "move" else [])
            rc, out, err, to = C.run(["setpriv", "--reuid=65534", "--regid=65534", "--clear-groups", C.FCLONES] + args,
                                     cwd=sc.tree, env=sc.env({"RAYON_NUM_THREADS": "1"}), stdin=report, timeout=120)
            err = err.decode("utf-8", "replace")
        finally:
            if holder:
                holder.stdin.close()
                holder.wait()
        after = C.inventory(sc.tree)
        if to or rc != 0:
            viol.append(dict(feat, kind="crash", detail="rc=%s %s" % (rc, err[-300:])))
        warns = D.warnings(err)
        locked_inodes = set(before[sc.path(x).decode()]["ino"] for x in case["locked"])
        for rel in case["droppable"]:
            p = sc.path(rel).decode()
            b, a = before[p], after.get(p)
            untouched = a is not None and (a["type"], a["ino"], a.get("sha")) == (b["type"], b["ino"], b["sha"])
            if b["ino"] in locked_inodes:
                if not untouched:
                    viol.append(dict(feat, kind="locked_file_processed",
                                     detail="%s is locked (%s) by another process%s but `%s` run by uid 65534 changed it: %s -> %s; stderr %s" % (
                                         rel, case["mode"], " and read-only for the user" if case["readonly"] else "", case["op"], b, a, err[-200:])))
                elif not any(os.path.basename(rel) in w for w in warns):
                    viol.append(dict(feat, kind="no_warning_for_locked_file", detail="%s; stderr %s" % (rel, err[-300:])))
            # (whether an unlocked read-only file can be processed by this user is not C20's subject)
    return {"violations": viol, "nontrivial": [case["op"], case["mode"], "unpriv", case["readonly"], case["locked"]] if case["locked"] else None,
            "outcome": "some_locked" if case["locked"] else "none_locked",
            "sample": {"locked": case["locked"], "op": case["op"], "unpriv": True, "mode": case["mode"]}}


def evaluate(case):
    if case.get("unpriv"):
        return evaluate_unpriv(case)
    viol = []
    feat = {"op": case["op"], "lock_type": case["mode"], "no_lock": case["no_lock"]}
    with C.Scratch() as sc:
        C.make_tree(sc.tree, SYMLINK_TREE if case.get("symlink_tree") else LINKS_TREE if case.get("links") else tree(case["ngroups"]))
        report = D.make_report(sc, case.get("gargs", []), ["r"])
        before = C.inventory(sc.tree)
        holder = None
        try:
            if case["locked"]:
                holder = subprocess.Popen([sys.executable, "-c", HOLDER, case["mode"]] +
                                          [sc.path(p).decode() for p in case["locked"]],
                                          stdin=subprocess.PIPE, stdout=subprocess.PIPE)
                if holder.stdout.readline().strip() != b"ready":
                    raise C.MachineryError("lock holder failed")
            target = os.path.join(sc.root, "moved")
            op = case["op"]
            loop = None
            if op == "move_other_mount":
                # a target on a mount point that fclones' own mount table knows (tmpfs is invisible to it):
                # `move` then copies and deletes instead of renaming
                if not C.can_loop_mount():
                    return {"violations": [], "nontrivial": None, "outcome": "skipped_no_loop_mount"}
                loop = C.LoopMount(os.path.join(C.EXT4, "fcv.%d.c20loop" % os.getpid()))
                loop.__enter__()
                target = os.path.join(loop.mp, "moved")
                op = "move"
            try:
                # under the interposer, so that even a temporary rename of a locked file is seen
                dargs = list(D.OPS[op]) + (["--no-lock"] if case["no_lock"] else []) + ([target] if op == "move" else [])
                xenv = {"RAYON_NUM_THREADS": "1"}
                if case.get("lock_unsupported"):
                    xenv["FCSHIM_LOCK_UNSUPPORTED"] = case["lock_unsupported"]
                    feat["locks_unsupported_for_another_group"] = True
                r = S.run_with_shim(sc, dargs, [sc.tree, target], "m", stdin=report, env_extra=xenv,
                                    emulate_clone=bool(case.get("symlink_tree")))
            finally:
                if loop:
                    loop.__exit__()
        finally:
            if holder:
                holder.stdin.close()
                holder.wait()
        after = C.inventory(sc.tree)
        if r["timeout"] or r["rc"] != 0:
            viol.append(dict(feat, kind="crash", detail="rc=%s %s" % (r["rc"], r["err"][-300:])))
        warns = D.warnings(r["err"])
        locked_inodes = set(before[sc.path(x).decode()]["ino"] for x in case["locked"])
        if not case["no_lock"]:
            locked_paths = set(p for p, b in before.items() if b["ino"] in locked_inodes and b["type"] == "file")
            for ev in r["events"]:
                if ev.call in ("open", "write"):
                    continue      # the lock probe opens the file for writing; nothing is written
                touched = list(S.mutated_paths(ev))
                if ev.call in ("ficlone", "write", "truncate", "copy_file_range", "sendfile"):
                    # these calls act on the file a symbolic link points to
                    for q in list(touched):
                        if before.get(q, {}).get("type") == "sym":
                            touched.append(os.path.normpath(os.path.join(os.path.dirname(q), before[q]["target"])))
                hit = [q for q in touched if q in locked_paths]
                if hit and ev.ret >= 0:
                    viol.append(dict(feat, kind="locked_file_touched_temporarily",
                                     detail="%s is locked by another process, yet `%s` issued %r (the end state may look untouched)" % (
                                         hit[0], case["op"], ev)))
        feat["locked_file_has_several_names"] = bool(case.get("links")) and any(x.startswith(("r/b/h", "r/c/h")) for x in case["locked"])
        for rel in case["droppable"]:
            p = sc.path(rel).decode()
            b, a = before[p], after.get(p)
            # a lock is held on the file (inode): every name of it is locked
            locked = b["ino"] in locked_inodes and not case["no_lock"]
            untouched = a is not None and (a["type"], a["ino"], a.get("sha")) == (b["type"], b["ino"], b.get("sha"))
            if locked:
                if not untouched:
                    viol.append(dict(feat, kind="locked_file_processed",
                                     detail="%s is locked (%s) by another process but `%s` changed it: %s -> %s" % (
                                         rel, case["mode"], case["op"], b, a)))
                elif not any(os.path.basename(x) in w for w in warns for x in case["droppable"]
                             if before[sc.path(x).decode()]["ino"] == b["ino"]):
                    viol.append(dict(feat, kind="no_warning_for_locked_file", detail="%s; stderr %s" % (rel, r["err"][-300:])))
            elif case["op"] != "dedupe":
                if untouched:
                    viol.append(dict(feat, kind="unlocked_file_not_processed",
                                     detail="%s is not locked (locked: %s, --no-lock %s) but `%s` left it alone; stderr %s" % (
                                         rel, case["locked"], case["no_lock"], case["op"], r["err"][-300:])))
    return {"violations": viol, "nontrivial": [case["op"], case["mode"], case["no_lock"], case["locked"], bool(case.get("links")),
                                               case.get("gargs")] if case["locked"] else None,
            "outcome": "some_locked" if case["locked"] else "none_locked",
            "sample": {"locked": case["locked"], "op": case["op"], "no_lock": case["no_lock"], "mode": case["mode"]}}


def finish(stats, tier):
    return [] if stats["outcomes"].get("some_locked") else ["no case with a locked file"]
