"""C05 Replacing a file is atomic with respect to crashes and I/O errors (shape F, engine E1)."""
import os
import re

from .. import common as C
from .. import dedupelab as D
from .. import shimlab as S

ID = "C05"
LEVEL = "fault_enumeration"
RULE = ("scenario trees {one group of 3, hard-link set, two groups, names of 230 / 231 / 255 bytes (NAME_MAX and the room the temporary sibling needs)} x op {remove, link, link --soft, dedupe with FICLONE "
        "emulated, dedupe on a file system without reflink, move by rename, move by copy to another device (rename fails with EXDEV), "
        "move to another mount point known to fclones (copy without a rename attempt)}; the "
        "mutating-call history of the real binary is recorded twice (must be identical), then for EVERY event k the run "
        "is repeated with the process SIGKILLed just before k, and with call k failing with each errno of {EIO, EXDEV} "
        "(quick) / {EIO, ENOSPC, EXDEV, EPERM, EOPNOTSUPP} (thorough); pairs of failures with EIO: k and the next one or two "
        "calls (quick), every pair k1<k2 (thorough). Several worker threads (RAYON_NUM_THREADS 2 / 4; three groups, one droppable file each; "
        "remove, link, link --soft, dedupe, move by rename / by copy): for every file F and every step j of F's own call sequence the worker "
        "that completed step j is suspended until all other workers are quiescent, alone and combined with every step of another file G "
        "failing with each errno - once, or (ENOSPC in quick, every errno in thorough) from then on for every later call of the same "
        "kind: all placements of one suspended worker relative to a complete, faulty run of the others. "
        "Invariant: no content digest disappears; retained files untouched; every processed path holds its original "
        "bytes at the path, or (crash / failed roll-back only) at the temporary sibling, or is completely replaced; never "
        "a partially written file at the path; after a failing call a warning names the unprocessed file and the "
        "'Processed N' count equals the replacements in place. distinct_nontrivial = distinct (scenario, op, k, fault) "
        "whose event k was actually reached.")
ASSUMPTIONS = ["the position-enumerated runs are single-threaded (RAYON_NUM_THREADS=1) so that the call history is deterministic; determinism is "
               "re-proved on every run (two recordings equal, prefixes of injected runs equal)",
               "in the multi-threaded runs events are identified per file (j-th mutating call that names the file), which is deterministic because one file is handled by one worker; the relative order of the workers that are not suspended is left to the OS",
               "a kill 'after call k' is the same disk state as a kill 'before call k+1' because every mutating call is an event",
               "FICLONE is emulated by the shim as one atomic event on tmpfs/ext4 (no reflink file system in the sandbox)",
               "'open for write' of the lock probe counts as an event although it does not change the file"]

SCENARIOS = {
    "group3": [{"p": "r/d/a", "k": "file", "c": ["base", 3000, 1]}, {"p": "r/d/b", "k": "file", "c": ["base", 3000, 1]},
               {"p": "r/e/c", "k": "file", "c": ["base", 3000, 1]}, {"p": "r/d/other", "k": "file", "c": ["base", 3000, 2]}],
    "hardlinks": [{"p": "r/d/a", "k": "file", "c": ["base", 100, 1]}, {"p": "r/d/a2", "k": "hard", "to": "r/d/a"},
                  {"p": "r/d/b", "k": "file", "c": ["base", 100, 1]}, {"p": "r/e/b2", "k": "hard", "to": "r/d/b"}],
    "two_groups": [{"p": "r/a1", "k": "file", "c": ["base", 70000, 1]}, {"p": "r/a2", "k": "file", "c": ["base", 70000, 1]},
                   {"p": "r/b1", "k": "file", "c": ["lit", "bbbb"]}, {"p": "r/x/b2", "k": "file", "c": ["lit", "bbbb"]}],
    # file names at the limits of NAME_MAX: the temporary sibling '<name>.<24 characters>' fits (230), does not fit by
    # one byte (231), and the name itself is as long as a name can be (255)
    "long_names": [{"p": "r/d/" + "A" * 255, "k": "file", "c": ["base", 200, 1]}, {"p": "r/d/" + "B" * 255, "k": "file", "c": ["base", 200, 1]},
                   {"p": "r/e/" + "C" * 230, "k": "file", "c": ["base", 200, 1]}, {"p": "r/e/" + "D" * 231, "k": "file", "c": ["base", 200, 1]}],
    # long paths of two-byte characters, in two alignments (every fixed byte offset falls inside a character in one of them)
    "long_unicode": [{"p": "r/d" + "\u00e9" * 100 + "/a", "k": "file", "c": ["base", 300, 1]},
                     {"p": "r/dd" + "\u00e9" * 100 + "/b", "k": "file", "c": ["base", 300, 1]},
                     {"p": "r/e" + "\u017c" * 90 + "/ddd" + "\u00e9" * 60 + "/c", "k": "file", "c": ["base", 300, 1]}],
}
OPS = ["remove", "link", "softlink", "dedupe_emulated", "dedupe_native", "move_rename", "move_copy", "move_known_mount",
       "move_occupied"]   # move_occupied: every destination path already holds an unrelated file


def prepare(tier):
    S.prepare()


CONC_TREE = []
for _g in range(3):
    CONC_TREE += [{"p": "r/a%d/g%d_keep" % (_g, _g), "k": "file", "c": ["base", 3000 + _g, _g + 1]},
                  {"p": "r/z%d/g%d_drop" % (_g, _g), "k": "file", "c": ["base", 3000 + _g, _g + 1]}]
CONC_TAGS = ["g0_drop", "g1_drop", "g2_drop"]
CONC_OPS = ["remove", "link", "softlink", "dedupe_emulated", "move_rename", "move_copy"]


def cases(tier, seed):
    out = [{"scenario": s, "op": op, "tier": tier} for s in SCENARIOS for op in OPS]
    # several worker threads: one worker is suspended between two of its steps while the others run to completion,
    # and one call of ANOTHER file fails (once, or from then on: a full disk stays full)
    pairs = [("g0_drop", "g1_drop"), ("g1_drop", "g2_drop")] if tier == "quick" else \
        [(a, b) for a in CONC_TAGS for b in CONC_TAGS if a != b]
    for op in CONC_OPS:
        for threads in (("2",) if tier == "quick" else ("2", "4")):
            for pair in pairs:
                for jh in range(8):     # (steps beyond the end of the file's history are dropped at evaluation)
                    out.append({"kind": "concurrent", "op": op, "threads": threads, "tier": tier, "pair": list(pair), "jh": jh})
    return out


def op_args(op, sc, case):
    if op.startswith("dedupe"):
        return "dedupe", None
    if op in ("move_rename", "move_occupied"):
        return "move", os.path.join(sc.root, "moved")
    if op == "move_copy":
        return "move", os.path.join(C.EXT4, "fcv.%d.c05mv" % os.getpid())
    if op == "move_known_mount":
        # a mount point that fclones' own mount table knows: copy + delete without a rename attempt
        return "move", os.path.join(C.EXT4, "fcv.%d.c05loop" % os.getpid(), "moved")
    return op, None


TMP = re.compile(r"\.[A-Za-z0-9]{24}$")


def readable(p):
    try:
        return C.sha(C.read_file(C.b(p)))
    except OSError:
        return None


def check_state(op, fault, second, sc, target, before, report, res, rec_events, k):
    """Returns list of (kind, detail)."""
    out = []
    roots = [sc.tree] + ([target] if target else [])
    after = C.inventory(*[r for r in roots if os.path.lexists(r)])
    crash = fault == "kill"
    # (i) content preservation
    sb = set(x["sha"] for x in before.values() if x["type"] == "file")
    sa = set(x["sha"] for x in after.values() if x["type"] == "file")
    if sb - sa:
        out.append(("content_lost", "digest(s) %s no longer in any regular file" % sorted(sb - sa)))
    rep = D.report_groups(report)
    total_processed = 0
    for g in rep.groups:
        paths = [C.u(p) for p in g["paths"]]
        first_ino = before[paths[0]]["ino"]
        retained = [p for p in paths if before[p]["ino"] == first_ino]
        dropped = [p for p in paths if p not in retained]
        for p in retained:
            a, b = after.get(p), before[p]
            if a is None or (a["type"], a["ino"], a.get("sha"), a["mtime"]) != (b["type"], b["ino"], b["sha"], b["mtime"]):
                out.append(("retained_touched", "%s: %s -> %s" % (p, b, a)))
        processed = 0
        unprocessed = []
        for p in dropped:
            b = before[p]
            a = after.get(p)
            now = readable(p)
            # a temporary sibling: an entry of the same directory that was not there before and holds the bytes
            # (whatever it is called)
            temps = [q for q in after if q != p and os.path.dirname(q) == os.path.dirname(p) and q not in before
                     and after[q].get("type") == "file" and after[q].get("sha") == b["sha"]]
            replaced = False
            if a is not None and a["type"] == "file" and a.get("sha") != b["sha"]:
                out.append(("torn_file", "%s exists with different bytes (%s, %d bytes)" % (p, a.get("sha"), a.get("len", -1))))
                continue
            if op == "remove":
                replaced = a is None
                if a is None and temps:
                    pass
            elif op == "link":
                replaced = a is not None and a["type"] == "file" and a["ino"] == first_ino
            elif op == "softlink":
                replaced = a is not None and a["type"] == "sym" and now == b["sha"]
                if a is not None and a["type"] == "sym" and now != b["sha"]:
                    out.append(("bytes_unavailable", "%s is a symlink that does not read the original bytes" % p))
                    continue
            elif op.startswith("dedupe"):
                replaced = False    # a clone is indistinguishable from the original by inventory
            elif op.startswith("move"):
                tp = target + p
                ta = after.get(tp)
                moved_ok = ta is not None and ta.get("sha") == b["sha"]
                replaced = a is None and moved_ok
                if a is None and not moved_ok:
                    out.append(("bytes_unavailable", "%s was removed but %s does not hold its complete bytes (%s)" % (p, tp, ta)))
                    continue
            if replaced:
                processed += 1
                continue
            if now == b["sha"]:
                unprocessed.append(p)
                continue
            if a is None and temps:
                if not crash and not second:
                    out.append(("not_restored", "%s is missing after a single failing call; its bytes are at %s" % (p, temps[0])))
                continue
            out.append(("bytes_unavailable", "%s: neither the path nor a temporary sibling holds the original bytes (%s)" % (p, a)))
        total_processed += processed
        if not crash and not op.startswith("dedupe") and unprocessed and not D.warnings(res["err"]):
            out.append(("no_warning", "%s left unprocessed without any warning; stderr: %s" % (unprocessed, res["err"][-300:])))
    if not crash and not op.startswith("dedupe"):
        m = D.parse_summary(res["err"])
        if m is None:
            out.append(("no_summary", res["err"][-200:]))
        elif m[0] != total_processed:
            out.append(("count_mismatch", "summary says %d processed, %d replacements are in place" % (m[0], total_processed)))
    return out


def evaluate_concurrent(case):
    op, tier = case["op"], case.get("tier", "quick")
    viol = []
    reached = []
    evals = 0
    holds = 0
    with C.Scratch() as sc:
        cmd, target = op_args(op, sc, case)
        emulate = op == "dedupe_emulated"
        roots = [sc.tree] + ([target] if target else [])

        def rebuild():
            C.rmtree(sc.tree)
            os.makedirs(sc.tree)
            if target:
                C.rmtree(target)
            C.make_tree(sc.tree, CONC_TREE)
        try:
            rebuild()
            report = D.make_report(sc, [], ["r"])
            args = list(D.OPS[cmd]) + ([target] if target else [])
            rec = S.run_with_shim(sc, args, roots, "m", stdin=report, emulate_clone=emulate, env_extra={"RAYON_NUM_THREADS": "1"})
            seq = {t: [e for e in rec["events"] if t in e.path or t in e.path2] for t in CONC_TAGS}
            if min(len(v) for v in seq.values()) < (1 if cmd == "remove" and False else 2):
                raise C.MachineryError("per-file histories too short: %s" % {t: len(v) for t, v in seq.items()})
            errnos = ["ENOSPC", "EIO"] if tier == "quick" else ["ENOSPC", "EIO", "EXDEV", "EPERM", "EOPNOTSUPP"]
            pairs = [tuple(case["pair"])]
            plan = []
            for f, g in pairs:
                if len(seq[f]) > 8:
                    raise C.MachineryError("history of %s has %d steps, only 8 are enumerated" % (f, len(seq[f])))
                for jh in range(len(seq[f])):
                    if jh != case["jh"]:
                        continue
                    plan.append((f, jh, None, None, None, False))            # suspended worker, no fault
                    for jf in range(len(seq[g])):
                        for e in errnos:
                            for persist in ((True,) if (tier == "quick" and e == "ENOSPC") else (False,) if tier == "quick" else (False, True)):
                                if seq[g][jf].call in ("copy_file_range", "sendfile") and e in ("EPERM", "EOPNOTSUPP", "EXDEV", "ENOSYS"):
                                    # "not supported for these files" is an answer to the FIRST call of a copy only (std
                                    # asserts it, see shimlab.impossible_fault): a persisting fault would also reach the
                                    # later calls of a copy that another worker has in progress
                                    if persist or S.impossible_fault(seq[g], jf, e):
                                        continue
                                plan.append((f, jh, g, jf, e, persist))
            if case.get("only"):
                plan = [tuple(case["only"])]
            env0 = {"RAYON_NUM_THREADS": case["threads"]}
            for (f, jh, g, jf, e, persist) in plan:
                rebuild()
                before = C.inventory(sc.tree)
                env = dict(env0, FCSHIM_THOLD="%s:%d:100:500" % (f, jh))
                call = "none"
                if g is not None:
                    env["FCSHIM_TFAIL"] = "%s:%d:%d%s" % (g, jf, S.ERRNO[e], ":persist" if persist else "")
                    call = seq[g][jf].call
                    if S.impossible_fault(seq[g], jf, e):
                        continue
                res = S.run_with_shim(sc, args, roots, "m", stdin=report, emulate_clone=emulate, env_extra=env)
                evals += 1
                held = "#HOLD" in open(os.path.join(sc.root, sorted(x for x in os.listdir(sc.root) if x.startswith("shim."))[-1]),
                                        errors="replace").read()
                holds += 1 if held else 0
                feat = {"op": op, "call": call, "fault": e or "none", "second_fault": False, "worker_threads": case["threads"],
                        "suspended_worker": True, "fault_persists": bool(persist)}
                ctx = "%s with %s workers; the worker of %s suspended after its step %d (%r); %s" % (
                    op, case["threads"], f, jh, seq[f][jh], ("step %d of %s (%s) fails with %s%s" % (
                        jf, g, call, e, " and so does every later " + call if persist else "")) if g else "no fault")
                if res["timeout"]:
                    viol.append(dict(feat, kind="hang", detail=ctx, replay_case=dict(case, only=[f, jh, g, jf, e, persist])))
                    continue
                if "panicked" in res["err"]:
                    viol.append(dict(feat, kind="panic", detail="%s: %s" % (ctx, res["err"][-300:]),
                                     replay_case=dict(case, only=[f, jh, g, jf, e, persist])))
                reached.append(["concurrent", op, case["threads"], f, jh, g, jf, e, persist])
                # a persisting failure of a call that roll-backs use too (rename, unlink) is "operation and roll-back fail"
                second = bool(persist) and call in ("rename", "unlink")
                probs = check_state(cmd if not op.startswith("dedupe") and not op.startswith("move") else op, e or "none",
                                    second, sc, target, before, report, res, rec["events"], 0)
                if g is None and not probs:
                    m = D.parse_summary(res["err"])
                    if op != "dedupe_emulated" and (m is None or m[0] != 3):
                        probs.append(("count_mismatch", "no fault at all, yet the summary is %s" % (m,)))
                for kind, detail in probs:
                    viol.append(dict(feat, kind=kind, detail="%s: %s" % (ctx, detail),
                                     replay_case=dict(case, only=[f, jh, g, jf, e, persist])))
        finally:
            if target:
                C.rmtree(target)
    return {"violations": viol, "evaluations": evals, "nontrivial": reached or None, "outcome": "concurrent_explored" if reached else "concurrent_beyond_history",
            "counters": {"suspended_worker_runs": holds},
            "sample": {"concurrent": op, "threads": case["threads"], "per_file_steps": {t: [e.call for e in v] for t, v in seq.items()}}}


def evaluate(case):
    if case.get("kind") == "concurrent":
        return evaluate_concurrent(case)
    if case["op"] == "move_known_mount":
        if not C.can_loop_mount():
            return {"violations": [], "nontrivial": None, "outcome": "skipped_no_loop_mount", "evaluations": 1}
        with C.LoopMount(os.path.join(C.EXT4, "fcv.%d.c05loop" % os.getpid())):
            return _evaluate(case)
    return _evaluate(case)


def _evaluate(case):
    scenario, op = case["scenario"], case["op"]
    tier = case.get("tier", "quick")
    viol = []
    reached = []
    evals = 0
    with C.Scratch() as sc:
        cmd, target = op_args(op, sc, case)
        emulate = op == "dedupe_emulated"
        roots = [sc.tree] + ([target] if target else [])

        def rebuild():
            C.rmtree(sc.tree)
            os.makedirs(sc.tree)
            if target:
                C.rmtree(target)
            C.make_tree(sc.tree, SCENARIOS[scenario])
            if op == "move_occupied":
                k = 0
                for e in SCENARIOS[scenario]:
                    tp = target + sc.path(e["p"]).decode()
                    os.makedirs(os.path.dirname(tp), exist_ok=True)
                    with open(tp, "wb") as f:
                        f.write(b"already there, unique %d" % k)
                    k += 1
        try:
            rebuild()
            report = D.make_report(sc, [], ["r"])
            args = list(D.OPS[cmd]) + ([target] if target else [])
            env = {"RAYON_NUM_THREADS": "1"}
            rec = S.run_with_shim(sc, args, roots, "m", stdin=report, emulate_clone=emulate, env_extra=env)
            rebuild()
            rec2 = S.run_with_shim(sc, args, roots, "m", stdin=report, emulate_clone=emulate, env_extra=env)
            d = S.same_history(rec["events"], rec2["events"])
            if d:
                raise C.MachineryError("recording not deterministic for %s/%s: %s" % (scenario, op, d))
            events = rec["events"]
            K = len(events)
            if K < 2 and op == "move_occupied" and rec["rc"] == 0:
                # every destination is occupied: an implementation may refuse each file before it issues any mutating
                # call - then there is no position to enumerate (the refusal itself is C18's subject)
                return {"violations": [], "evaluations": 1, "nontrivial": None, "outcome": "refused_before_any_mutating_call"}
            if K < 2:
                raise C.MachineryError("history too short for %s/%s: %r" % (scenario, op, events))
            errnos = ["EIO", "EXDEV"] if tier == "quick" else ["EIO", "ENOSPC", "EXDEV", "EPERM", "EOPNOTSUPP"]
            plan = []

            def impossible(k, e):
                return S.impossible_fault(events, k, e)
            for k in range(K):
                plan.append((k, "kill", None))
                for e in errnos:
                    if not impossible(k, e):
                        plan.append((k, e, None))
            if tier == "thorough":
                for k1 in range(K):
                    for k2 in range(k1 + 1, K + 3):
                        plan.append((k1, "EIO", k2))
            else:
                # quick: the operation fails and the call(s) right after it - its roll-back - fail too
                for k1 in range(K):
                    for k2 in (k1 + 1, k1 + 2):
                        plan.append((k1, "EIO", k2))
            if case.get("only"):
                plan = [tuple(case["only"])]
            for (k, fault, k2) in plan:
                rebuild()
                before = C.inventory(sc.tree, target) if (target and os.path.lexists(target)) else C.inventory(sc.tree)
                evals += 1
                if fault == "kill":
                    res = S.run_with_shim(sc, args, roots, "m", stdin=report, mode="kill", at=k, emulate_clone=emulate,
                                          env_extra=env)
                else:
                    res = S.run_with_shim(sc, args, roots, "m", stdin=report, mode="fail", at=k, errno=S.ERRNO[fault],
                                          at2=k2, errno2=S.ERRNO["EIO"] if k2 is not None else None,
                                          emulate_clone=emulate, env_extra=env)
                d = S.same_history(events, res["events"], upto=min(k, len(res["events"])))
                if d or len(res["events"]) < min(k, K):
                    raise C.MachineryError("prefix before event %d diverged from the recording (%s/%s): %s" % (k, scenario, op, d))
                if fault == "kill" and not res["killed"]:
                    raise C.MachineryError("process was not killed at event %d (%s/%s), rc=%s" % (k, scenario, op, res["rc"]))
                if res["timeout"]:
                    viol.append({"kind": "hang", "op": op, "call": events[k].call, "fault": fault, "second_fault": k2 is not None,
                                 "detail": "%s/%s k=%d" % (scenario, op, k), "replay_case": dict(case, only=[k, fault, k2])})
                    continue
                if "panicked" in res["err"]:
                    viol.append({"kind": "panic", "op": op, "call": events[k].call, "fault": fault, "second_fault": k2 is not None,
                                 "detail": "%s/%s k=%d: %s" % (scenario, op, k, res["err"][-300:]),
                                 "replay_case": dict(case, only=[k, fault, k2])})
                reached.append([scenario, op, k, fault, k2])
                probs = check_state(cmd if not op.startswith("dedupe") and not op.startswith("move") else op, fault,
                                    k2 is not None, sc, target, before, report, res, events, k)
                for kind, detail in probs:
                    viol.append({"kind": kind, "op": op, "call": events[k].call, "fault": fault, "second_fault": k2 is not None,
                                 "detail": "%s/%s event %d %r fault %s%s: %s" % (scenario, op, k, events[k], fault,
                                                                                " + EIO at %d" % k2 if k2 is not None else "", detail),
                                 "replay_case": dict(case, only=[k, fault, k2])})
        finally:
            if target:
                C.rmtree(target)
    return {"violations": viol, "evaluations": evals, "nontrivial": reached or None,
            "outcome": "explored", "counters": {"events_in_histories": K, "mutating_events_min": K},
            "sample": {"scenario": scenario, "op": op, "history": [repr(e).replace(sc.root, "") for e in events][:14]}}


def finish(stats, tier):
    c = stats.get("counters", {})
    out = []
    if c.get("events_in_histories", 0) < 3 * 24:
        out.append("histories shorter than 3 mutating events per op on average")
    if not c.get("suspended_worker_runs"):
        out.append("no multi-threaded run in which a worker was actually suspended between two of its steps")
    return out
