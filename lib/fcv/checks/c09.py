"""C09 The scan selects exactly the files the options describe (shape I, engine E2, reference walk)."""
import os
import re
import stat
import subprocess

from .. import common as C

ID = "C09"
LEVEL = "exploration"
RULE = ("feature trees (nesting to depth 6, hidden entries, .gitignore/.fdignore with name, *.ext, dir/, /anchored and "
        "!negated patterns, file and directory symlinks relative/absolute/dangling/cyclic/leaving the root, directory "
        "names with regex metacharacters and non-ASCII text, sizes 0..100) x the full product of --depth {unset,0,1,2,3} "
        "x --hidden x --no-ignore x {none,-L,-S,-L -S}, each combined with a rotating choice of size filter, pattern "
        "option and root form, plus a sweep of every pattern option (also with --base-dir pointing elsewhere than the working directory: input paths relative to it, patterns relative to the working directory) (--name, --path absolute / cwd-relative from two "
        "working directories, --exclude, --regex, --ignore-case) x link mode x depth {unset,2} (thorough: on three trees "
        "the complete product pattern option x depth x hidden x no-ignore x link mode); roots single, repeated, "
        "overlapping, given as arguments or through --stdin (no path may be listed twice); --one-fs with links (to a directory and to a single file) into a second file system and a nested mount. Oracle: reference walk "
        "written from --help/README (a file is selected if some route within the depth limit reaches it; pruning never "
        "changes the result); observed = paths of `group --rf-over 0`. Files below a directory fully matched by an "
        "--exclude pattern are don't-care. Non-trivial = reference selects at least one file; distinct by (tree, options).")
ASSUMPTIONS = ["hidden roots, links to hidden targets, two ignore files in one directory, nested ignore files with "
               "cross-level negation, ignore files combined with followed links and symlinks given as roots are "
               "outside the alphabet (undocumented)",
               "the nested-mount case runs only if `mount -t tmpfs` is permitted (probed at run time)"]

INF = 10 ** 9


def prepare(tier):
    C.build_hooks()


# --------------------------------------------------------------------------- trees

def F(p, n=3, seed=None):
    return {"p": p, "k": "file", "c": ["base", n, (sum(map(ord, p)) % 200) + 1 if seed is None else seed]}


def S(p, to):
    return {"p": p, "k": "sym", "to": to}


def D(p):
    return {"p": p, "k": "dir"}


TREES = {
    "nest": [F("r/f0"), F("r/d1/f1"), F("r/d1/d2/f2"), F("r/d1/d2/d3/f3"), F("r/d1/d2/d3/d4/f4"),
             F("r/c1/c2/c3/c4/c5/c6/f6"), F("r/x"), F("r/d1/x.txt"), F("r/d1/d2/x")],
    "hidden": [F("r/.hf"), F("r/.hd/x"), F("r/v/.hf2"), F("r/v/y"), F("r/v/.hd2/deep/x"), F("r/x.txt")],
    "ignore": [{"p": "r/.gitignore", "k": "file", "c": ["lit", "skipme\n*.log\nbuild/\n/anch\n!keep.log\n"]},
               F("r/skipme"), F("r/a.log"), F("r/keep.log"), F("r/build/x"), F("r/sub/build/y"), F("r/anch"),
               F("r/sub/anch"), F("r/sub/skipme"), F("r/sub/b.log"), F("r/sub/keep.log"), F("r/x"),
               {"p": "r/sub2/.fdignore", "k": "file", "c": ["lit", "*.tmp\n"]}, F("r/sub2/a.tmp"),
               F("r/sub2/deep/b.tmp"), F("r/c.tmp"), F("r/sub2/a.log"), F("r/sub2/ok")],
    # an ignore file with one line that is not a valid glob (unclosed class) among valid rules: the valid rules still
    # apply (git and the ignore crate skip the bad line); a rule file is never dropped as a whole
    "ignore_bad": [{"p": "r/.gitignore", "k": "file", "c": ["lit", "*.log\ncache[0-9\nout/\n"]},
                   F("r/a.log"), F("r/keep"), F("r/cache1"), F("r/out/x"), F("r/sub/b.log"), F("r/sub/out/deep/y"), F("r/sub/z"),
                   {"p": "r/sub2/.fdignore", "k": "file", "c": ["lit", "tmp[\n*.tmp\n"]}, F("r/sub2/a.tmp"), F("r/sub2/ok")],
    # paths whose components concatenate to the same bytes (a/b/x and ab/x; a/bc and ab/c)
    "collide": [F("r/a/b/x"), F("r/ab/x"), F("r/a/bc"), F("r/ab/c"), F("r/abc"), F("r/a/b/c/y"), F("r/ab/c2/y"), F("r/a/bc2/y")],
    "links": [F("r/a/f1"), F("r/a/b/f2"), F("outside/o1"), F("outside/od/o2"),
              S("r/lrel", "a/f1"), S("r/labs", "@TREE@/r/a/b/f2"), S("r/dangling", "nowhere"),
              S("r/drel", "a/b"), S("r/dabs", "@TREE@/r/a"), S("r/loop", "."), S("r/a/up", ".."),
              S("r/out", "../outside"), S("r/outf", "../outside/o1"), S("r/a/chain", "../lrel"),
              S("r/viadots", "drel/../b/f2")],
    # absolute symlink targets that are not canonical: through another directory symlink, or containing '..'
    "links2": [F("r/real/x"), F("r/real/sub/y"), S("r/alias", "real"), S("r/abs_via_alias", "@TREE@/r/alias"),
               S("r/abs_dotdot", "@TREE@/r/real/../real/sub"), S("r/abs_file", "@TREE@/r/alias/x"), F("r/other/z")],
    "names": [F("r/d-1/x"), F("r/v.2/x"), F("r/v.2/sub/x"), F("r/ż/x"), F("r/ż/bcd/x"), F("r/x+y(1)/x"),
              F("r/[b]/x"), F("r/a.1z/x"), F("r/v/x"), F("r/vv/x"), F("r/v-2/sub/x"), F("r/d-1/x.txt"), F("r/V.2/X")],
    "sizes": [F("r/s0", 0), F("r/s1", 1), F("r/s2", 2), F("r/s100", 100), F("r/d/s2b", 2, 9), F("r/d/s1b", 1, 9)],
    "multi": [F("r/a/x"), F("r/a/b/x"), F("r/c/x"), F("q/x"), F("q/d/y"), S("r/toq", "../q"), S("q/tor", "../r/a")],
    # two sibling directories whose names differ only by case; cwd-relative patterns are tried from inside one of them
    "casecwd": [F("r/src/x"), F("r/src/d/x.txt"), F("R/src/x"), F("R/src/d/x.txt"), F("R/other/x")],
}


def _wide():
    """Directories with many entries, around powers of two and not multiples of them (listing is done in blocks, entries
    are handed to workers in batches): 255, 256, 257, 300, 513 and 1025 entries; hidden entries and sub-directories are
    spread over the listing, the last entries (by name and - created in this order - by inode number) included."""
    out = []
    for n in (255, 256, 257, 300, 513, 1025):
        for i in range(n):
            d = "r/w%d" % n
            if i % 97 == 5:
                out.append(F("%s/.h%04d" % (d, i)))
            elif i % 101 == 7 or i == n - 2:
                out.append(F("%s/s%04d/x" % (d, i)))
            else:
                out.append(F("%s/f%04d" % (d, i), 1 + i % 2))
    return out


TREES["wide"] = _wide()
QUICK_TREES = ["nest", "ignore", "ignore_bad", "links", "names", "links2", "collide"]

NAME_PATTERNS = ["x", "*.txt", "f?", "[fx]*", "{x,y}.txt", "X", "*.LOG", "\\x"]
PATH_PATTERNS = ["r/**/x", "r/d1/*", "r/**/*.txt", "r/v.2/**", "r/ż/b*/x", "r/a.1*/x", "r/d-1/**", "r/v-2/**/x",
                 "r/*/x", "**/sub/*", "r/x+y(1)/*"]
EXCLUDE_PATTERNS = ["r/d1/**", "**/x.txt", "r/v", "r/d1", "**/d2/**", "r/ż/**", "r/a", "r/sub/**/*.log"]
REGEX_PATTERNS = [".*/x", ".*\\.txt", ".*/d1/.*", ".*/v\\.2/.*", ".*/[ab]/.*",
                  # alternation at the top level of the expression (the whole path must match one of the branches)
                  ".*/x|.*\\.txt", ".*/d1/.*|.*/v\\.2/.*", "@RETREE@/r/d1/.*|@RETREE@/r/a/.*", "@RETREE@/r/a/.*|.*/x",
                  # counted repetitions after a literal prefix: the character before '{' may occur zero times
                  "@RETREE@/r/d12{0,2}/.*", "@RETREE@/r/d1x{0,1}/.*", "@RETREE@/r/d{1,2}1/.*", "@RETREE@/r/d1/d2y{0}/.*"]


# --------------------------------------------------------------------------- reference glob (documented semantics)

def glob_to_re(g):
    i, n, out = 0, len(g), []
    while i < n:
        c = g[i]
        if c == "\\" and i + 1 < n:
            out.append(re.escape(g[i + 1]))
            i += 2
        elif g.startswith("**", i):
            out.append(".*")
            i += 2
        elif c == "*":
            out.append("[^/]*")
            i += 1
        elif c == "?":
            out.append("[^/]")
            i += 1
        elif c == "[":
            j = g.index("]", i)
            body = g[i + 1:j]
            if body.startswith("!"):
                out.append("[^" + re.escape(body[1:]).replace("\\-", "-") + "]")
            else:
                out.append("[" + re.escape(body).replace("\\-", "-") + "]")
            i = j + 1
        elif c == "{":
            j = g.index("}", i)
            out.append("(?:" + "|".join(glob_to_re(x) for x in g[i + 1:j].split(",")) + ")")
            i = j + 1
        else:
            out.append(re.escape(c))
            i += 1
    return "".join(out)


class Sel:
    """Reference path selector."""

    def __init__(self, o, cwd):
        ic = bool(o.get("ignore_case"))

        def comp(p, anchor):
            if o.get("regex"):
                rx = p
                is_abs = rx.startswith("/") or rx.startswith(".*")
            else:
                rx = glob_to_re(p)
                is_abs = p.startswith("/") or p.startswith("**")
            rx = "(?:" + rx + ")"      # a top-level alternation belongs to the pattern, not to the anchoring
            if ic:
                rx = "(?i:" + rx + ")"
            if anchor and not is_abs:
                # the pattern is case-insensitive, the working directory it is anchored at is a real
                # directory and is not: a sibling directory that differs only by case is a different place
                rx = re.escape(cwd.rstrip("/") + "/") + rx
            return re.compile(rx, re.DOTALL)
        self.names = [comp(p, False) for p in o.get("name", [])]
        self.paths = [comp(p, True) for p in o.get("path", [])]
        self.excl = [comp(p, True) for p in o.get("exclude", [])]

    def file_ok(self, path):
        name = os.path.basename(path)
        if self.names and not any(r.fullmatch(name) for r in self.names):
            return False
        if self.paths and not any(r.fullmatch(path) for r in self.paths):
            return False
        if any(r.fullmatch(path) for r in self.excl):
            return False
        return True

    def dir_fully_excluded(self, path):
        return any(r.fullmatch(path) for r in self.excl)


# --------------------------------------------------------------------------- reference ignore files

def load_ignore(dirpath):
    for n in (".gitignore", ".fdignore"):
        p = os.path.join(dirpath, n)
        if os.path.isfile(p):
            with open(p) as f:
                return (dirpath, [l.strip() for l in f if l.strip() and not l.startswith("#")])
    return None


def ignored_by(rule, path, is_dir):
    base, pats = rule
    if not path.startswith(base + "/"):
        return False
    rel = path[len(base) + 1:]
    name = os.path.basename(path)
    verdict = False
    for p in pats:
        if p.count("[") != p.count("]"):
            continue     # not a valid glob: the line is skipped (with a warning), the other lines still apply
        neg = p.startswith("!")
        if neg:
            p = p[1:]
        dir_only = p.endswith("/")
        if dir_only:
            p = p[:-1]
        if dir_only and not is_dir:
            continue
        if p.startswith("/"):
            m = re.fullmatch(glob_to_re(p[1:]), rel) is not None
        elif "/" in p:
            m = re.fullmatch(glob_to_re(p), rel) is not None
        else:
            m = re.fullmatch(glob_to_re(p), name) is not None
        if m:
            verdict = not neg
    return verdict


# --------------------------------------------------------------------------- reference walk

def ref_scan(cwd, roots, o):
    """Returns (must: set of paths, dontcare: set of paths)."""
    depth = o.get("depth")
    depth = INF if depth is None else depth
    L, Sflag = o.get("follow"), o.get("report_links")
    sel = Sel(o, cwd)
    must, dontcare = set(), set()
    best = {}
    attempts = {}   # directory -> set of levels at which some route reached it (with -L)
    stack = []      # directories on the current route
    routes = {}     # selected path -> every directory on some route by which the reference selects it
    min_size = o.get("min", 1)
    max_size = o.get("max")

    def select(path, excluded_above):
        try:
            st = os.stat(path)
        except OSError:
            return
        if st.st_size < min_size or (max_size is not None and st.st_size > max_size):
            return
        if excluded_above:
            dontcare.add(path)
            return
        if sel.file_ok(path):
            must.add(path)
            routes.setdefault(path, set()).update(stack)

    def visit_entry(path, level, rules, root_dev, excl):
        name = os.path.basename(path)
        if not o.get("hidden") and name.startswith("."):
            return
        try:
            lst = os.lstat(path)
        except OSError:
            return
        isdir = stat.S_ISDIR(lst.st_mode)
        if not o.get("no_ignore") and any(ignored_by(r, path, isdir) for r in rules):
            return
        if stat.S_ISLNK(lst.st_mode):
            if not (L or Sflag):
                return
            try:
                tst = os.stat(path)
            except OSError:
                return
            if stat.S_ISREG(tst.st_mode) and Sflag:
                select(path, excl)
                return
            if L:
                # (no lexical normalisation: '..' after a component that is itself a link means the parent of the
                # link's TARGET, as the kernel resolves it)
                hop = os.path.join(os.path.dirname(path), os.readlink(path))
                if stat.S_ISDIR(tst.st_mode):
                    tgt = os.path.realpath(hop)
                else:
                    tgt = os.path.join(os.path.realpath(os.path.dirname(hop)), os.path.basename(hop))
                if o.get("one_fs") and tst.st_dev != root_dev:
                    return
                visit_entry(tgt, level, rules, root_dev, excl)
            return
        if stat.S_ISREG(lst.st_mode):
            select(path, excl)
        elif isdir:
            visit_dir(path, level, rules, root_dev, excl)

    def visit_dir(path, level, rules, root_dev, excl):
        attempts.setdefault(path, set()).add(level)
        if level >= depth:
            return
        if L:
            if best.get(path, INF) <= level:
                return
            best[path] = level
        if o.get("one_fs") and os.stat(path).st_dev != root_dev:
            return
        excl = excl or sel.dir_fully_excluded(path)
        if not o.get("no_ignore"):
            r = load_ignore(path)
            if r:
                rules = rules + [r]
        try:
            names = sorted(os.listdir(path))
        except OSError:
            return
        stack.append(path)
        try:
            for n in names:
                visit_entry(os.path.join(path, n), level + 1, rules, root_dev, excl)
        finally:
            stack.pop()

    for r in roots:
        ap = os.path.join(cwd, r)
        if os.path.isdir(ap):
            ap = os.path.realpath(ap)
            visit_dir(ap, 0, [], os.stat(ap).st_dev, False)
        elif os.path.isfile(ap):
            ap = os.path.join(os.path.realpath(os.path.dirname(ap)), os.path.basename(ap))
            visit_entry(ap, 0, [], os.stat(ap).st_dev, False)
    attempts["__routes__"] = routes
    return must, dontcare, attempts


def glob_literal_prefix(g):
    out = []
    i = 0
    while i < len(g):
        c = g[i]
        if c == "\\" and i + 1 < len(g):
            out.append(g[i + 1])
            i += 2
            continue
        if c in "*?[{":
            break
        out.append(c)
        i += 1
    return "".join(out)


# --------------------------------------------------------------------------- cases

def opt_args(o, tree_root):
    a = []
    if o.get("depth") is not None:
        a += ["--depth", str(o["depth"])]
    if o.get("hidden"):
        a.append("--hidden")
    if o.get("no_ignore"):
        a.append("--no-ignore")
    if o.get("follow"):
        a.append("-L")
    if o.get("report_links"):
        a.append("-S")
    if o.get("one_fs"):
        a.append("--one-fs")
    a += ["--min", str(o.get("min", 1))]
    if o.get("max") is not None:
        a += ["--max", str(o["max"])]
    for k, flag in (("name", "--name"), ("path", "--path"), ("exclude", "--exclude")):
        for p in o.get(k, []):
            a += [flag, p.replace("@TREE@", tree_root)]
    if o.get("regex"):
        a.append("--regex")
    if o.get("ignore_case"):
        a.append("--ignore-case")
    if o.get("threads"):
        a += ["--threads", str(o["threads"])]
    return a


def pattern_options():
    """Every pattern option of the alphabet: list of (label, option dict, cwd)."""
    out = [("none", {}, "")]
    for p in NAME_PATTERNS:
        out.append(("name", {"name": [p]}, ""))
    out.append(("name_ic", {"name": ["*.LOG"], "ignore_case": True}, ""))
    out.append(("name_ic", {"name": ["X"], "ignore_case": True}, ""))
    for p in PATH_PATTERNS:
        out.append(("path_rel", {"path": [p]}, ""))
        out.append(("path_abs", {"path": ["@TREE@/" + p if not p.startswith("**") else p]}, ""))
        if p.startswith("r/"):
            out.append(("path_rel_cwd_r", {"path": [p[2:]]}, "r"))
    out.append(("path_ic", {"path": ["R/**/X"], "ignore_case": True}, ""))
    for p in EXCLUDE_PATTERNS:
        out.append(("exclude", {"exclude": [p]}, ""))
        if p.startswith("r/"):
            out.append(("exclude_abs", {"exclude": ["@TREE@/" + p]}, ""))
            out.append(("exclude_rel_cwd_r", {"exclude": [p[2:]]}, "r"))
    for p in REGEX_PATTERNS:
        out.append(("regex_path", {"path": [p], "regex": True}, ""))
        out.append(("regex_exclude", {"exclude": [p], "regex": True}, ""))
    out.append(("regex_name", {"name": ["[fx].*"], "regex": True}, ""))
    out.append(("regex_name", {"name": ["x|.*\\.txt"], "regex": True}, ""))
    # regular expressions with --ignore-case
    out.append(("regex_path_ic", {"path": [".*/X"], "regex": True, "ignore_case": True}, ""))
    out.append(("regex_path_ic", {"path": [".*/D1/.*\\.TXT"], "regex": True, "ignore_case": True}, ""))
    out.append(("regex_exclude_ic", {"exclude": [".*/D1/.*"], "regex": True, "ignore_case": True}, ""))
    out.append(("regex_name_ic", {"name": ["[FX].*"], "regex": True, "ignore_case": True}, ""))
    out.append(("two_names", {"name": ["x", "*.txt"]}, ""))
    out.append(("path_and_exclude", {"path": ["r/**"], "exclude": ["**/x"]}, ""))
    return out


ROOT_FORMS = [("single", ["r"]), ("repeated", ["r", "r"]), ("overlapping", ["r", "r/d1", "r/a", "r/v.2"]),
              ("file_roots", None),
              # an input path that goes up again after a symbolic link to a directory elsewhere (tree links: drel -> a/b)
              ("dotdot_after_link", ["r/drel/..", "r/out/../outside"])]


def cases(tier, seed):
    quick = tier == "quick"
    out = []
    popts = pattern_options()
    sizes = [{}, {"min": 0}, {"min": 2, "max": 2}]
    idx = 0
    jj = 0
    for tname in (QUICK_TREES if quick else list(TREES)):
        base_roots = ["r", "q"] if tname == "multi" else ["r"]
        i = 0
        for depth in (None, 0, 1, 2, 3):
            for hidden in (False, True):
                for no_ignore in (False, True):
                    for follow, rl in ((False, False), (True, False), (False, True), (True, True)):
                        i += 1
                        idx += 1
                        if quick and (hidden, no_ignore) == (True, True) and depth in (0, 3):
                            continue
                        if tname.startswith("ignore") and follow:
                            continue   # ignore files combined with followed links: outside the alphabet
                        o = {"depth": depth, "hidden": hidden, "no_ignore": no_ignore, "follow": follow, "report_links": rl}
                        variants = [({}, "", base_roots)]
                        if not quick or i % 3 == 0:   # 3 is coprime to the 4 link modes of the inner loop
                            lab, po, cwd = popts[(i * 7) % len(popts)]
                            variants.append((dict(po, **sizes[i % 3]), cwd, base_roots))
                            rf = ROOT_FORMS[i % len(ROOT_FORMS)]
                            variants.append((sizes[(i + 1) % 3], "", rf[1]))
                            # the same root forms with the input paths on standard input
                            for rf2 in ROOT_FORMS:
                                jj += 1
                                variants.append((sizes[jj % 3], "", rf2[1], True))
                        for extra, cwd, roots, *via_stdin in variants:
                            oo = dict(o, **extra)
                            out.append({"tree": tname, "o": oo, "cwd": cwd, "roots": roots, "stdin": bool(via_stdin)})
        # pattern sweep
        for lab, po, cwd in popts:
            for follow, rl in ((False, False), (True, False), (False, True), (True, True)):
                if tname.startswith("ignore") and follow:
                    continue
                for depth in (None, 2):
                    idx += 1
                    if quick and (idx % 3 or (follow and rl)):
                        continue
                    out.append({"tree": tname, "o": dict(po, depth=depth, follow=follow, report_links=rl), "cwd": cwd,
                                "roots": base_roots})
        # --base-dir: relative INPUT PATHS are resolved against it, patterns stay relative to the working directory
        for lab, po, cwd in popts:
            if cwd != "r" and lab not in ("none", "name", "path_abs", "exclude_abs"):
                continue
            for follow in (False, True):
                if tname.startswith("ignore") and follow:
                    continue
                idx += 1
                if quick and idx % 2:
                    continue
                out.append({"tree": tname, "o": dict(po, follow=follow), "cwd": "r", "roots": base_roots, "base_dir": True})
    if not quick:
        # thorough: the complete product pattern option x depth x hidden x no-ignore x link mode on three trees
        for tname in ("nest", "names", "links"):
            for lab, po, cwd in popts:
                for depth in (None, 0, 1, 2, 3):
                    for hidden in (False, True):
                        for no_ignore in (False, True):
                            for follow, rl in ((False, False), (True, False), (False, True), (True, True)):
                                out.append({"tree": tname, "o": dict(po, depth=depth, hidden=hidden, no_ignore=no_ignore,
                                                                      follow=follow, report_links=rl),
                                            "cwd": cwd, "roots": ["r"]})
    # wide directories (many entries): the complete listing must be visited whatever the count is
    for o in ({}, {"hidden": True}, {"depth": 2}, {"hidden": True, "no_ignore": True, "depth": 3}, {"name": ["f*1"]},
              {"path": ["**/w3*/**"], "hidden": True}, {"exclude": ["**/f*0"]}, {"follow": True, "hidden": True},
              {"min": 2, "max": 2}, {"threads": "1"}, {"threads": "1", "hidden": True}, {"report_links": True, "depth": 2}):
        for roots in (["r"], ["r/w257", "r/w300", "r/w1025"]):
            if quick and roots != ["r"] and len(o) > 1:
                continue
            out.append({"tree": "wide", "o": dict(o), "cwd": "", "roots": roots})
    # cwd-relative patterns with --ignore-case, scanned roots both inside the cwd and in a sibling that differs only by case
    for lab, po in (("path", {"path": ["src/**"]}), ("path", {"path": ["SRC/**/X"]}), ("exclude", {"exclude": ["src/**"]}),
                    ("exclude", {"exclude": ["Src/d/**"]}), ("name", {"name": ["X"]}), ("regex", {"path": ["src/.*"], "regex": True})):
        for ic in (False, True):
            for cwd in ("r", "R"):
                for follow in (False, True):
                    out.append({"tree": "casecwd", "o": dict(po, ignore_case=ic, follow=follow), "cwd": cwd, "roots": ["r", "R"]})
    # --one-fs: a second file system reached through a link, and a nested mount point
    for follow in (False, True):
        for one_fs in (False, True):
            out.append({"tree": "links", "o": {"follow": follow, "one_fs": one_fs}, "cwd": "", "roots": ["r"],
                        "second_fs": "link"})
            out.append({"tree": "links", "o": {"follow": follow, "one_fs": one_fs, "report_links": True}, "cwd": "", "roots": ["r"],
                        "second_fs": "link"})
            out.append({"tree": "nest", "o": {"follow": follow, "one_fs": one_fs}, "cwd": "", "roots": ["r"],
                        "second_fs": "mount"})
    return out


_mount_ok = None


def can_mount():
    global _mount_ok
    if _mount_ok is None:
        d = os.path.join(C.SHM, "fcv.mountprobe.%d" % os.getpid())
        os.makedirs(d, exist_ok=True)
        r = subprocess.run(["mount", "-t", "tmpfs", "none", d], stdout=subprocess.PIPE, stderr=subprocess.PIPE)
        _mount_ok = r.returncode == 0
        if _mount_ok:
            subprocess.run(["umount", d])
        os.rmdir(d)
    return _mount_ok


def evaluate(case):
    o = case["o"]
    viol = []
    with C.Scratch() as sc:
        tree = [dict(e, to=e["to"].replace("@TREE@", sc.tree)) if e["k"] == "sym" else e for e in TREES[case["tree"]]]
        C.make_tree(sc.tree, tree)
        ext_dir = None
        mounted = None
        try:
            if case.get("second_fs") == "link":
                ext_dir = os.path.join(C.EXT4, "fcv.%d.ext" % os.getpid())
                C.rmtree(ext_dir)
                os.makedirs(ext_dir)
                with open(os.path.join(ext_dir, "e1"), "wb") as f:
                    f.write(b"ext")
                os.symlink(ext_dir, os.path.join(sc.tree, "r", "toext"))
                # ... and a link to a single FILE on the other file system
                with open(os.path.join(ext_dir, "e2"), "wb") as f:
                    f.write(b"ext file reached directly")
                os.symlink(os.path.join(ext_dir, "e2"), os.path.join(sc.tree, "r", "toextfile"))
            elif case.get("second_fs") == "mount":
                if not can_mount():
                    return {"violations": [], "outcome": "skipped_no_mount", "nontrivial": None}
                mounted = os.path.join(sc.tree, "r", "mnt")
                os.makedirs(mounted)
                if subprocess.run(["mount", "-t", "tmpfs", "none", mounted]).returncode != 0:
                    return {"violations": [], "outcome": "skipped_no_mount", "nontrivial": None}
                with open(os.path.join(mounted, "m1"), "wb") as f:
                    f.write(b"mnt")
            roots = case["roots"]
            if roots is None:
                roots = sorted(e["p"] for e in tree if e["k"] == "file" and not os.path.basename(e["p"]).startswith("."))[:6]
            roots = [r for r in roots if os.path.lexists(os.path.join(sc.tree, r))
                     and not os.path.islink(os.path.join(sc.tree, r))]
            if not roots:
                roots = ["r"]
            cwd = os.path.join(sc.tree, case["cwd"]) if case["cwd"] else sc.tree
            rel_roots = list(roots)
            if case["cwd"]:
                roots = [os.path.join(sc.tree, r) for r in roots]
            o = dict(o)
            for k in ("name", "path", "exclude"):
                if o.get(k):
                    o[k] = [p.replace("@TREE@", sc.tree).replace("@RETREE@", re.escape(sc.tree)) for p in o[k]]
            must, dontcare, attempts = ref_scan(cwd, roots, o)
            if case.get("stdin"):
                args = ["group", "--rf-over", "0"] + opt_args(o, sc.tree) + ["--stdin", "-f", "json"]
                rc, out, err, to = C.fclones(args, sc, cwd=cwd, stdin=("\n".join(roots) + "\n").encode())
                args = args + ["<"] + roots
            elif case.get("base_dir"):
                # the command runs in TREE/r; the input paths are given relative to --base-dir TREE
                args = ["group", "--rf-over", "0"] + opt_args(o, sc.tree) + ["--base-dir", sc.tree] + rel_roots + ["-f", "json"]
                rc, out, err, to = C.fclones(args, sc, cwd=cwd)
            else:
                args = ["group", "--rf-over", "0"] + opt_args(o, sc.tree) + roots + ["-f", "json"]
                rc, out, err, to = C.fclones(args, sc, cwd=cwd)
            errs = err.decode("utf-8", "replace")
            depth0_no_files = o.get("depth") == 0 and not any(os.path.isfile(os.path.join(cwd, r)) for r in roots)
            if to:
                viol.append({"kind": "hang", "detail": str(args)})
                got = None
            elif rc != 0:
                got = None
                if depth0_no_files and "No input files" in errs:
                    got = set()
                else:
                    viol.append({"kind": "crash" if "panicked" in errs else "error_exit",
                                 "detail": "rc=%s %s args=%s" % (rc, errs[-300:], args)})
            else:
                rep = C.parse_json_report(out)
                listed = [C.u(p) for g in rep.groups for p in g["paths"]]
                got = set(listed)
                if len(listed) != len(got):
                    twice = sorted(p for p in got if listed.count(p) > 1)
                    viol.append({"kind": "file_listed_twice", "tree": case["tree"], "follow_links": bool(o.get("follow")),
                                 "roots_via_stdin": bool(case.get("stdin")),
                                 "detail": "%s listed more than once; args %s" % (twice[:4], args)})
        finally:
            if mounted:
                subprocess.run(["umount", mounted])
            if ext_dir:
                C.rmtree(ext_dir)
    feats = {"depth_set": o.get("depth") is not None, "follow_links": bool(o.get("follow")),
             "report_links": bool(o.get("report_links")),
             "pattern_kind": "+".join(k for k in ("name", "path", "exclude") if o.get(k)) + ("_regex" if o.get("regex") else "") or "none",
             "tree": case["tree"]}
    if got is not None:
        missing = sorted(must - got)
        extra = sorted(got - must - dontcare)
        if missing:
            def multi_route(p):
                # some directory on a route by which the reference reaches p (possibly through links) is itself
                # reached by several routes at different levels
                if any(len(attempts.get(d, ())) > 1 for d in attempts.get("__routes__", {}).get(p, ())):
                    return True
                d = os.path.dirname(p)
                while len(d) > 1:
                    if len(attempts.get(d, ())) > 1:
                        return True
                    d = os.path.dirname(d)
                return False

            def under_multibyte_dir(p):
                rel = os.path.dirname(p)[len(os.path.dirname(sc.tree)):]
                return any(ord(ch) > 127 for ch in rel)
            pp = [x for x in o.get("path", []) if not o.get("regex")]
            feats = dict(feats, missing_all_multi_route=all(multi_route(p) for p in missing),
                         path_pattern_prefix_multibyte=any(any(ord(ch) > 127 for ch in glob_literal_prefix(x)) for x in pp),
                         missing_all_under_multibyte_dir=all(under_multibyte_dir(p) for p in missing))
            viol.append(dict(feats, kind="missing_file",
                             detail="not scanned: %s; args %s cwd %s" % (missing[:4], args, case["cwd"])))
        if extra:
            d = o.get("depth")
            lvl = None
            if d is not None:
                # are all extra files exactly one level too deep? (feature for the depth off-by-one)
                def level_of(p):
                    best = None
                    for r in roots:
                        ap = os.path.normpath(os.path.join(cwd, r))
                        if p.startswith(ap + "/"):
                            l = p[len(ap) + 1:].count("/") + 1
                            best = l if best is None else min(best, l)
                    return best
                lv = set(level_of(p) for p in extra)
                lvl = (lv == {d + 1})
            viol.append(dict(feats, kind="extra_file", all_extra_exactly_one_level_below_limit=lvl,
                             detail="scanned but not selected by the options: %s; args %s cwd %s" % (extra[:4], args, case["cwd"])))
    return {"violations": viol, "nontrivial": [case["tree"], sorted(o.items(), key=str), case["cwd"], case["roots"],
                                               case.get("second_fs"), bool(case.get("stdin"))] if must else None,
            "outcome": "files" if must else "no_files",
            "sample": {"tree": case["tree"], "options": o, "roots": case["roots"], "selected": sorted(must)[:5]}}


def finish(stats, tier):
    out = []
    for o in ("files", "no_files"):
        if not stats["outcomes"].get(o):
            out.append("outcome never observed: " + o)
    return out
