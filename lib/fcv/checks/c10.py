"""C10 Reports round-trip losslessly from `group` to the dedupe commands (shape I, engine E3 + binary cross-check)."""
import os

from .. import common as C
from .. import dedupelab as D
from .. import unitcheck as U
from . import c02

ID = "C10"
LEVEL = "exploration"
RULE = ("file names of 1..L symbols over {a, space, tab, LF, CR, ', \", \\, #, z-with-dot, U+2003, 0xFF} (L=3 quick, 4 "
        "thorough) in first/last position of a group; long paths: each symbol repeated (pure and alternating with 'a') in components of <= 255 bytes up to a total of 255 / 1020 / 2040 / 4092 bytes; reports listing files in sibling directories whose names differ only in invalid UTF-8 bytes / U+FFFD; group shapes 1x1,1x2,2x2,3x1,0x0 x lengths {0,1,2^40} x hash "
        "sizes 16/32/64; base dirs over the same alphabet (<=2 symbols); 6 timestamps x small/large statistics; "
        "command vectors of <=2 arguments over the C17 alphabet; text and JSON; written by ReportWriter, read by "
        "open_report; plus every byte truncation point of six fixed reports (1-3 groups, LF/CRLF, text/JSON); a report file written twice by `group -o FILE` (the second, shorter report into the existing file) read back by `remove --dry-run`; binary cross-check: 30 "
        "hostile names as real files through `group` -> report -> `remove --dry-run`. "
        "Non-trivial = a round trip or truncation point that was actually written and read back; "
        "distinct_nontrivial counts them (all cases are distinct by construction).")
ASSUMPTIONS = ["the 'randomly over long strings' clause is not covered",
               "timestamps are compared to the millisecond plus UTC offset, as the statement says"]
SHARDS = 16


def prepare(tier):
    U.build()
    C.build_hooks()


def cases(tier, seed):
    L = 3 if tier == "quick" else 4
    out = [{"mode": "roundtrip", "names": L, "shard": "%d/%d" % (i, SHARDS)} for i in range(SHARDS)]
    out.append({"mode": "truncate"})
    # binary cross-check: real files with hostile names -> group -> report (text / JSON) -> remove --dry-run
    for i in range(0, len(c02.HOSTILE), 5):
        for fmt in ("default", "json"):
            out.append({"mode": "binary", "names": c02.HOSTILE[i:i + 5], "fmt": fmt})
    # the environment of `group` (colour switches, terminal description, width, time zone, locale) changes nothing in a
    # report that is piped to a dedupe command
    for env in ({"CLICOLOR_FORCE": "1"}, {"CLICOLOR": "1", "TERM": "xterm-256color", "COLORTERM": "truecolor"}, {"NO_COLOR": "1"},
                {"TERM": "dumb", "COLUMNS": "20", "LINES": "5"}, {"TZ": "Asia/Kolkata"}, {"LC_ALL": "C", "LANG": "C"},
                {"LC_ALL": "C.UTF-8"}, {"RUST_BACKTRACE": "full", "RUST_LOG": "trace"}):
        for fmt in ("default", "json"):
            out.append({"mode": "binary", "names": c02.HOSTILE[:5], "fmt": fmt, "env": env})
    # the report file of an earlier, longer run is written again (`group -o FILE` twice): what the dedupe commands
    # read back is the second report and nothing else
    for fmt in ("default", "json"):
        for keep in (1, 2):
            out.append({"mode": "binary_rerun", "fmt": fmt, "keep": keep})
        # the header's own command line is read back wherever the dedupe command is started: `group` run with a relative
        # --base-dir (and relative input paths), the report used from another working directory
        for basedir in ("data", "./data/", "../proj/data"):
            out.append({"mode": "binary_basedir", "fmt": fmt, "basedir": basedir})
    return out


def evaluate_binary_rerun(case):
    viol = []
    with C.Scratch() as sc:
        tree = []
        for i in range(4):
            for d in ("d", "e", "f"):
                tree.append({"p": "%s%d/file-%d" % (d, i, i), "k": "file", "c": ["base", 100 + i, i + 1]})
        C.make_tree(sc.tree, tree)
        out = os.path.join(sc.root, "dupes.report")
        args = ["group", "."] + (["-f", "json"] if case["fmt"] == "json" else []) + ["-o", out]
        rc, _, err, to = C.fclones(args, sc)
        if rc != 0:
            raise C.MachineryError("group -o failed: %s" % err[-300:])
        first = C.read_file(out)
        # most duplicates go away; the second report is (much) shorter than the first
        for i in range(case["keep"], 4):
            for d in ("e", "f"):
                os.unlink(sc.path("%s%d/file-%d" % (d, i, i)))
        rc, _, err, to = C.fclones(args, sc)
        second = C.read_file(out)
        ref = D.make_report(sc, [], ["."], fmt=case["fmt"])
        expected = set()
        for g in D.report_groups(ref).groups:
            expected.update(g["paths"][1:])
        r = D.run_dedupe(sc, "remove", [], second, dry_run=True)
        feat = {"kind": "stale_report_content", "format": case["fmt"], "what": "group_o_into_existing_file"}
        if len(ref) >= len(first):
            raise C.MachineryError("a fresh report of the reduced tree is not shorter than the first report")
        if rc != 0:
            viol.append(dict(feat, kind="read_error", detail="second `group -o`: %s" % err[-300:]))
        elif r["rc"] != 0:
            viol.append(dict(feat, kind="read_error", detail="the report file written by the second `group -o FILE` (FILE existed, %d bytes; "
                             "now %d bytes) is rejected: %s" % (len(first), len(second), r["err"][-200:])))
        else:
            got = set(o["file"] for o in D.parse_script(r["out"]))
            if got != expected:
                viol.append(dict(feat, detail="after a second `group -o FILE` into the existing file, `remove --dry-run` names %r beyond / misses %r "
                                 "of what a fresh report lists" % (sorted(got - expected)[:3], sorted(expected - got)[:3])))
    return {"violations": viol, "evaluations": 1, "counters": {"nontrivial": 1, "binary_cases": 1, "binary_paths": len(expected)},
            "outcome": "binary", "sample": {"case": case}}


def evaluate_binary_basedir(case):
    viol = []
    with C.Scratch() as sc:
        tree = [{"p": "proj/data/%s/f%d" % (d, i), "k": "file", "c": ["base", 60 + i, i + 1]} for i in range(3) for d in ("a", "b")]
        C.make_tree(sc.tree, tree)
        proj = os.path.join(sc.tree, "proj")
        other = os.path.join(sc.root, "somewhere else")
        os.makedirs(other, exist_ok=True)
        args = ["group", "--base-dir", case["basedir"], "."] + (["-f", "json"] if case["fmt"] == "json" else [])
        rc, report, err, to = C.fclones(args, sc, cwd=proj)
        if rc != 0 or to:
            raise C.MachineryError("group --base-dir failed: %s" % err[-300:])
        expected = set()
        for g in D.report_groups(report).groups:
            expected.update(g["paths"][1:])
        feat = {"kind": "header_not_portable", "format": case["fmt"], "what": "relative_base_dir_other_cwd"}
        for where in (proj, other, "/"):
            r = D.run_dedupe(sc, "remove", [], report, dry_run=True, cwd=where)
            if r["rc"] != 0:
                viol.append(dict(feat, kind="read_error", detail="report of `group --base-dir %s .` (run in %s) used from %s: %s" % (
                    case["basedir"], proj, where, r["err"][-300:])))
                continue
            got = set(o["file"] for o in D.parse_script(r["out"]))
            if got != expected:
                viol.append(dict(feat, detail="used from %s: dry run names %r beyond / misses %r" % (
                    where, sorted(got - expected)[:3], sorted(expected - got)[:3])))
    return {"violations": viol, "evaluations": 3, "counters": {"nontrivial": 1, "binary_cases": 1, "binary_paths": len(expected)},
            "outcome": "binary", "sample": {"case": case}}


def evaluate_binary(case):
    """Ties the in-process round trip to what the dedupe commands act on: the files named by `remove --dry-run`
    must be exactly the reported paths minus the first of each group, byte for byte."""
    viol = []
    n = 0
    with C.Scratch() as sc:
        tree = []
        for i, name in enumerate(case["names"]):
            tree.append({"p": "d%d/%s" % (i, name), "k": "file", "c": ["lit", "content-%d" % i]})
            tree.append({"p": "e%d/%s" % (i, name), "k": "file", "c": ["lit", "content-%d" % i]})
        C.make_tree(sc.tree, tree)
        report = D.make_report(sc, [], ["."], fmt=case["fmt"])
        if case.get("env"):
            import re
            plain = report
            report = D.make_report(sc, [], ["."], fmt=case["fmt"], env_extra=case["env"])
            strip = lambda r: re.sub(rb'(# Timestamp: [^\n]*|"timestamp": *"[^"]*")', b"", r)
            if strip(plain) != strip(report):
                a, b_ = strip(plain), strip(report)
                i = next((k for k in range(min(len(a), len(b_))) if a[k] != b_[k]), min(len(a), len(b_)))
                viol.append({"kind": "report_depends_on_environment", "format": case["fmt"], "what": "binary_group_report",
                             "detail": "group run with %r: report differs from the one of a plain run at byte %d: %r vs %r" % (
                                 case["env"], i, b_[max(0, i - 20):i + 30], a[max(0, i - 20):i + 30])})
                return {"violations": viol, "evaluations": 1, "counters": {"nontrivial": 1, "binary_cases": 1, "binary_paths": 0},
                        "outcome": "binary", "sample": {"case": {"mode": "binary", "fmt": case["fmt"], "env": case["env"]}}}
        rep = D.report_groups(report)
        expected = set()
        for g in rep.groups:
            expected.update(g["paths"][1:])
        on_disk = set(sc.path(e["p"]) for e in tree)
        listed = set(p for g in rep.groups for p in g["paths"])
        if listed != on_disk:
            viol.append({"kind": "path_changed", "format": case["fmt"], "what": "binary_group_report",
                         "detail": "report lists %r, files on disk %r" % (sorted(listed - on_disk)[:3], sorted(on_disk - listed)[:3])})
        r = D.run_dedupe(sc, "remove", [], report, dry_run=True)
        if r["rc"] != 0:
            viol.append({"kind": "read_error", "format": case["fmt"], "what": "binary_remove_dry_run", "detail": r["err"][-300:]})
        else:
            got = set(o["file"] for o in D.parse_script(r["out"]))
            n = len(got)
            if got != expected:
                viol.append({"kind": "path_changed", "format": case["fmt"], "what": "binary_remove_dry_run",
                             "detail": "dry-run names %r, report says %r" % (sorted(got - expected)[:3], sorted(expected - got)[:3])})
    return {"violations": viol, "evaluations": 1, "counters": {"nontrivial": 1, "binary_cases": 1, "binary_paths": n},
            "outcome": "binary", "sample": {"case": {"mode": "binary", "fmt": case["fmt"], "names": [repr(x) for x in case["names"]]}}}


def evaluate(case):
    if case.get("mode") == "binary_rerun":
        return evaluate_binary_rerun(case)
    if case.get("mode") == "binary_basedir":
        return evaluate_binary_basedir(case)
    if case.get("mode") == "binary":
        return evaluate_binary(case)
    if "one" in case:
        viol, summ = U.run_unit(["report", "--one-" + case["one"], case["hex"]])
    elif case["mode"] == "truncate":
        viol, summ = U.run_unit(["report", "--truncate"])
    else:
        viol, summ = U.run_unit(["report", "--names", str(case["names"]), "--shard", case["shard"]])
    vs = []
    for v in viol:
        ex = v["examples"][0]
        d = dict(v["sig"])
        d["detail"] = "%d case(s), e.g. %s" % (v["count"], str(ex)[:600])
        if "subject_hex" in ex and ex.get("what") in ("name", "long_name", "base_dir", "command"):
            what = {"name": "name", "long_name": "name", "base_dir": "basedir", "command": "command"}[ex["what"]]
            hx = ex["subject_hex"]
            if what == "command":
                # subject is the arguments joined by a space: split on the separator we inserted
                hx = ",".join(x for x in hx.replace("20", ",", 1).split(",") if x) if False else None
            if hx:
                d["replay_case"] = {"one": what, "hex": hx}
        vs.append(d)
    n = summ["roundtrips"] + summ["truncations"]
    return {"violations": vs, "evaluations": n, "counters": {"nontrivial": n, "roundtrips": summ["roundtrips"],
                                                            "truncations": summ["truncations"], "names": summ["names"]},
            "outcome": "shard_ok" if not viol else "shard_violations", "sample": {"case": case, "summary": summ}}


def coverage_extra(stats, tier):
    return {"distinct_nontrivial": stats.get("counters", {}).get("nontrivial", 0)}


def finish(stats, tier):
    c = stats.get("counters", {})
    out = []
    if not c.get("truncations"):
        out.append("no truncation point explored")
    if not c.get("names"):
        out.append("no file name explored")
    return out


RULE += ' Since rounds 10-11 also: lengths above 2^53; control sequences (CSI/ANSI) inside command arguments; command lines of 40 000 bytes of 2-, 3-, 4-byte characters in every alignment; the binary round trip under eight environments of `group`.'
