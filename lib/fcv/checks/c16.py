"""C16 Globs match as documented and directory pruning is conservative (shape I, engine E3)."""
import os

from .. import common as C
from .. import unitcheck as U

ID = "C16"
LEVEL = "exploration"
RULE = ("all globs of <=K tokens over a 26-token alphabet (literals incl. . - + ( $ z-with-dot; ? * ** / [ab] [!a] "
        "{a,b} @(a|b) ?(a) +(a) *(a) \\* \\? and {a,(} @(a|,) {b,a|b}: delimiters of one bracket family as literals inside the other; {b,a/**} @(b|a/*): alternatives that contain a separator and a wildcard) x all well-formed path strings of <=L characters over "
        "{a,b,z-with-dot,.,-,A,/,$,*} (and, for globs of <=2 tokens, strings of <=5 characters over {a,b,LF,TAB,/,Z-with-dot-above (upper case of a token letter outside ASCII)}, absolute globs (first token '/') there up to 3 tokens) x ignore-case on/off (quick K=3,L=4; thorough K=4,L=4, K=3,L=5 and K=5,L=3); oracle 1: "
        "independent backtracking matcher == Pattern::matches; oracle 2: every ancestor directory of a matching path "
        "passes matches_partially and PathSelector::matches_dir; oracle 3: as --exclude, no non-excluded file lies "
        "below a refused directory unless an ancestor is itself fully matched; two include patterns at once: every pair of globs of <=2 tokens that contain '/' or '**' (selected iff one of them matches; every ancestor of a selected path enterable); command-line cross-check: every glob of <=2 (thorough 3) tokens given to the real binary as --name, --path and --exclude, with and without -i, on a fixed tree of 16 files: the selected set must be the reference matcher's (files below a fully excluded directory: don't care). distinct_nontrivial = number of "
        "(glob, path, case-mode) triples in which the glob matched (each triple is distinct by construction).")
ASSUMPTIONS = ["'[!..]' may or may not match '/' (documentation silent): both accepted",
               "token sequences whose concatenation re-tokenises differently (e.g. '*' '*') are skipped; the merged "
               "token is enumerated on its own", "!(..) is outside the property",
               "the 'randomly beyond the bound' clause is not covered"]
SHARDS = 64


def prepare(tier):
    U.build()
    C.build_hooks()


def cases(tier, seed):
    if tier == "quick":
        specs = [(3, 4)]
    else:
        specs = [(4, 4), (3, 5), (5, 3)]
    out = []
    for k, l in specs:
        n = SHARDS if k <= 3 else (SHARDS * 8 if k == 4 else SHARDS * 64)
        out += [{"tokens": k, "pathlen": l, "shard": "%d/%d" % (i, n)} for i in range(n)]
    # path strings with control characters that are legal in file names (LF, TAB)
    for k, l in ([(2, 5)] if tier == "quick" else [(3, 5), (2, 6)]):
        n = 16 if k <= 2 else SHARDS
        out += [{"tokens": k, "pathlen": l, "shard": "%d/%d" % (i, n), "alpha": "ctl"} for i in range(n)]
    # absolute patterns ('/' first) of up to 3 (thorough 4) tokens over the second path alphabet
    kk = 3 if tier == "quick" else 4
    out += [{"tokens": kk, "pathlen": 5, "shard": "%d/%d" % (i, 16), "alpha": "ctl", "first": "SLASH"} for i in range(16)]
    # ... and those whose literal prefix reaches into a directory named with the non-ASCII letter
    out += [{"tokens": kk + 2, "pathlen": 5, "shard": "%d/%d" % (i, 4), "alpha": "ctl", "first": "SLASH,ż,SLASH"} for i in range(4)]
    # bracket expressions whose members mean something inside a character class of the regex syntax (&& ~~ [ ^),
    # ranges and wildcards as members: "matches one of the characters or character ranges given in the brackets"
    kc = 2 if tier == "quick" else 3
    out += [{"tokens": kc, "pathlen": 4, "shard": "%d/%d" % (i, 8), "alpha": "cls"} for i in range(8)]
    # alternations whose alternatives are prefixes of one another (shorter one first / last) or share a prefix
    out += [{"tokens": 3 if tier == "quick" else 4, "pathlen": 6, "shard": "%d/%d" % (i, 8), "alpha": "alt"} for i in range(8)]
    # two --path patterns at once
    out += [{"pairs": True, "tokens": 2, "pathlen": 3 if tier == "quick" else 4, "shard": "%d/%d" % (i, 32)} for i in range(32)]
    # command-line cross-check: --name / --path / --exclude x -i on the real binary over a fixed tree
    # the pattern options of the dedupe commands (--path / --keep-path / --name / --keep-name), with the command started
    # from several working directories: patterns that begin with '/' or '**' mean the same everywhere
    for opt in ("--keep-path", "--path", "--keep-name", "--name"):
        for cwd in ("tree", "tree/r", "elsewhere", "/"):
            out.append({"dedupe_cli": True, "opt": opt, "cwd": cwd})
    n = 32 if tier == "quick" else 256
    out += [{"cli": True, "tokens": 2 if tier == "quick" else 3, "shard": "%d/%d" % (i, n)} for i in range(n)]
    # the same cross-check started from a working directory whose NAME is full of glob syntax: the directory that
    # anchors a relative pattern is text, not a pattern
    names = ["photos[2020]", "w{d,e}x", "q*r?s", "w[a-c]{d,e}?*x!(y)"]
    out += [{"cli": True, "tokens": 2 if tier == "quick" else 3, "shard": "%d/%d" % (i, n), "cwd_name": names[(i // 4) % 4]}
            for i in range(0, n, 4 if tier == "quick" else 2)]
    return out


DEDUPE_FILES = ["r/a/f", "r/b/f", "r/sub/a/g", "r/sub/b/g", "r/top", "r/a/b/h"]
DEDUPE_PATH_GLOBS = ["**/a/*", "**/b/*", "@TREE@/r/a/*", "@TREE@/r/*/a/?", "**/sub/**", "**/{a,b}/?", "@TREE@/**", "**/[ab]/f", "**"]
DEDUPE_NAME_GLOBS = ["f", "?", "[fg]", "{f,top}", "t*", "*"]


def evaluate_dedupe_cli(case):
    import re
    from .. import dedupelab as D
    from . import c09
    viol = []
    runs = 0
    with C.Scratch() as sc:
        C.make_tree(sc.tree, [{"p": p, "k": "file", "c": ["lit", "one content for all of them"]} for p in DEDUPE_FILES])
        report = D.make_report(sc, [], ["r"])
        order = [C.u(p) for p in D.report_groups(report).groups[0]["paths"]]
        cwd = {"tree": sc.tree, "tree/r": os.path.join(sc.tree, "r"), "elsewhere": os.path.join(sc.root, "elsewhere"), "/": "/"}[case["cwd"]]
        os.makedirs(cwd, exist_ok=True)
        is_name = case["opt"].endswith("name")
        keep = case["opt"].startswith("--keep")
        for g in (DEDUPE_NAME_GLOBS if is_name else DEDUPE_PATH_GLOBS):
            pat = g.replace("@TREE@", sc.tree)
            rx = re.compile(c09.glob_to_re(pat))
            hit = [bool(rx.fullmatch(os.path.basename(p) if is_name else p)) for p in order]
            retained = [p for p, h in zip(order, hit) if (h if keep else not h)]
            cand = [p for p in order if p not in retained]
            if not retained:
                retained, cand = cand[:1], cand[1:]
            r = D.run_dedupe(sc, "remove", [case["opt"], pat], report, dry_run=True, cwd=cwd)
            runs += 1
            feat = {"kind": "dedupe_pattern_differs", "option": case["opt"], "working_directory": case["cwd"],
                    "pattern_begins_with": "**" if pat.startswith("**") else ("/" if pat.startswith("/") else "other")}
            if r["rc"] != 0:
                viol.append(dict(feat, kind="dedupe_pattern_rejected", detail="remove %s %r from %s: %s" % (case["opt"], pat, cwd, r["err"][-200:])))
                continue
            got = sorted(C.u(o["file"]) for o in D.parse_script(r["out"]))
            if got != sorted(cand):
                viol.append(dict(feat, detail="`remove --dry-run %s %s` started in %s drops %s, the documented glob semantics give %s (report order %s)" % (
                    case["opt"], pat, cwd, [x[len(sc.tree):] for x in got], [x[len(sc.tree):] for x in sorted(cand)], [x[len(sc.tree):] for x in order])))
    return {"violations": viol, "evaluations": runs, "counters": {"dedupe_cli_runs": runs},
            "outcome": "dedupe_cli_ok" if not viol else "dedupe_cli_violations", "sample": {"case": case}}


def evaluate(case):
    if case.get("dedupe_cli"):
        return evaluate_dedupe_cli(case)
    if case.get("cli"):
        with C.Scratch() as sc:
            tree = sc.tree
            if case.get("cwd_name"):
                tree = os.path.join(sc.tree, case["cwd_name"])
                os.makedirs(tree)
            args = ["glob", "--cli", "--fclones", C.FCLONES, "--tree", tree, "--tokens", str(case["tokens"])]
            if "one" in case:
                viol, summ = U.run_unit(args + ["--one", case["one"]])
            else:
                viol, summ = U.run_unit(args + ["--shard", case["shard"]])
        vs = []
        for v in viol:
            ex = v["examples"][0]
            d = dict(v["sig"])
            d["detail"] = "%d case(s), e.g. %s" % (v["count"], ex)
            vs.append(d)
        return {"violations": vs, "evaluations": summ["evaluations"],
                "counters": {"cli_runs": summ["globs"], "cli_matches": summ["matches"]},
                "outcome": "cli_ok" if not viol else "cli_violations", "sample": {"case": case, "summary": summ}}
    if case.get("pairs"):
        viol, summ = U.run_unit(["glob", "--pairs", "--tokens", str(case["tokens"]), "--pathlen", str(case["pathlen"]),
                                 "--shard", case["shard"]])
        vs = []
        for v in viol:
            d = dict(v["sig"])
            d["detail"] = "%d case(s), e.g. %s" % (v["count"], v["examples"][0])
            vs.append(d)
        return {"violations": vs, "evaluations": summ["evaluations"],
                "counters": {"pair_selectors": summ["globs"], "pair_matches": summ["matches"], "dir_checks": summ["dir_checks"]},
                "outcome": "pairs_ok" if not viol else "pairs_violations", "sample": {"case": case, "summary": summ}}
    if "one" in case:
        args = ["glob", "--one", case["one"], "--pathlen", str(case.get("pathlen", 4))]
        if case.get("ic"):
            args.append("--ic")
        if case.get("alpha"):
            args += ["--alpha", case["alpha"]]
        viol, summ = U.run_unit(args)
    else:
        viol, summ = U.run_unit(["glob", "--tokens", str(case["tokens"]), "--pathlen", str(case["pathlen"]),
                                 "--shard", case["shard"]] + (["--alpha", case["alpha"]] if case.get("alpha") else []) +
                                (["--first", case["first"]] if case.get("first") else []))
    vs = []
    for v in viol:
        ex = v["examples"][0]
        d = dict(v["sig"])
        d["detail"] = "%d case(s), e.g. %s" % (v["count"], ex)
        d["replay_case"] = {"one": ex["glob"], "ic": v["sig"].get("ignore_case", False),
                            "pathlen": case.get("pathlen", 4)}
        if case.get("alpha"):
            d["replay_case"]["alpha"] = case["alpha"]
        vs.append(d)
    return {"violations": vs, "evaluations": summ["evaluations"],
            "counters": {"globs": summ["globs"], "matches": summ["matches"], "dir_checks": summ["dir_checks"],
                         "exclude_checks": summ["exclude_checks"], "rejected": summ["rejected"],
                         "ambiguous_negclass_sep": summ["ambiguous_negclass_sep"]},
            "outcome": "shard_ok" if not viol else "shard_violations",
            "sample": {"case": case, "summary": summ}}


def coverage_extra(stats, tier):
    return {"distinct_nontrivial": stats.get("counters", {}).get("matches", 0)}


def finish(stats, tier):
    c = stats.get("counters", {})
    out = []
    if not c.get("matches"):
        out.append("no glob ever matched")
    if not c.get("dir_checks"):
        out.append("pruning oracle never exercised")
    if not c.get("exclude_checks"):
        out.append("exclude oracle never exercised")
    if not c.get("cli_matches"):
        out.append("command-line cross-check never selected a file")
    return out


RULE += ' Since round 11 also: the command-line cross-check started from working directories whose names are glob syntax.'


RULE += (" Since round 12 also: an alternation-centred alphabet {a, b, -, /, *, **, {ab,a}, {a,ab}, @(ab|a), {ab-,aba,ab}, {ab,a-}, {a/b,a}} "
         "(alternatives that are prefixes of one another, in both orders) x all paths of <=6 characters over {a, b, -, /}.")
