"""C16 Globs match as documented and directory pruning is conservative (shape I, engine E3)."""
from .. import unitcheck as U

ID = "C16"
LEVEL = "exploration"
RULE = ("all globs of <=K tokens over a 26-token alphabet (literals incl. . - + ( $ z-with-dot; ? * ** / [ab] [!a] "
        "{a,b} @(a|b) ?(a) +(a) *(a) \\* \\? and {a,(} @(a|,) {b,a|b}: delimiters of one bracket family as literals inside the other; {b,a/**} @(b|a/*): alternatives that contain a separator and a wildcard) x all well-formed path strings of <=L characters over "
        "{a,b,z-with-dot,.,-,A,/,$,*} x ignore-case on/off (quick K=3,L=4; thorough K=4,L=4, K=3,L=5 and K=5,L=3); oracle 1: "
        "independent backtracking matcher == Pattern::matches; oracle 2: every ancestor directory of a matching path "
        "passes matches_partially and PathSelector::matches_dir; oracle 3: as --exclude, no non-excluded file lies "
        "below a refused directory unless an ancestor is itself fully matched. distinct_nontrivial = number of "
        "(glob, path, case-mode) triples in which the glob matched (each triple is distinct by construction).")
ASSUMPTIONS = ["'[!..]' may or may not match '/' (documentation silent): both accepted",
               "token sequences whose concatenation re-tokenises differently (e.g. '*' '*') are skipped; the merged "
               "token is enumerated on its own", "!(..) is outside the property",
               "the 'randomly beyond the bound' clause is not covered"]
SHARDS = 64


def prepare(tier):
    U.build()


def cases(tier, seed):
    if tier == "quick":
        specs = [(3, 4)]
    else:
        specs = [(4, 4), (3, 5), (5, 3)]
    out = []
    for k, l in specs:
        n = SHARDS if k <= 3 else (SHARDS * 8 if k == 4 else SHARDS * 64)
        out += [{"tokens": k, "pathlen": l, "shard": "%d/%d" % (i, n)} for i in range(n)]
    return out


def evaluate(case):
    if "one" in case:
        args = ["glob", "--one", case["one"], "--pathlen", str(case.get("pathlen", 4))]
        if case.get("ic"):
            args.append("--ic")
        viol, summ = U.run_unit(args)
    else:
        viol, summ = U.run_unit(["glob", "--tokens", str(case["tokens"]), "--pathlen", str(case["pathlen"]),
                                 "--shard", case["shard"]])
    vs = []
    for v in viol:
        ex = v["examples"][0]
        d = dict(v["sig"])
        d["detail"] = "%d case(s), e.g. %s" % (v["count"], ex)
        d["replay_case"] = {"one": ex["glob"], "ic": v["sig"].get("ignore_case", False),
                            "pathlen": case.get("pathlen", 4)}
        vs.append(d)
    return {"violations": vs, "evaluations": summ["evaluations"],
            "counters": {"globs": summ["globs"], "matches": summ["matches"], "dir_checks": summ["dir_checks"],
                         "exclude_checks": summ["exclude_checks"], "rejected": summ["rejected"],
                         "ambiguous_negclass_sep": summ["ambiguous_negclass_sep"]},
            "outcome": "shard_ok" if not viol else "shard_violations",
            "sample": {"case": case, "summary": summ}}


def coverage_extra(stats, tier):
    return {"distinct_nontrivial": stats.get("counters", {}).get("matches", 0)}


def finish(stats, tier):
    c = stats.get("counters", {})
    out = []
    if not c.get("matches"):
        out.append("no glob ever matched")
    if not c.get("dir_checks"):
        out.append("pruning oracle never exercised")
    if not c.get("exclude_checks"):
        out.append("exclude oracle never exercised")
    return out
