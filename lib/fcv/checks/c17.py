"""C17 Shell quoting of paths and arguments is lossless (shape I, engine E3 + bash)."""
import json
import os
import re

from .. import common as C
from .. import dedupelab as D
from .. import unitcheck as U

ID = "C17"
LEVEL = "exploration"
RULE = ("all strings of 1..L symbols over a 36-symbol alphabet (L=3 quick, 4 thorough): troublesome bytes/characters "
        "(blank, tab, LF, quotes, backslash, $, `, *, #, ~, =, !, non-ASCII, U+00A0, the C1 controls U+0085 and U+009B, DEL, invalid UTF-8), every other "
        "ASCII character bash gives a meaning to (? [ ] { } , ; & | < > ( )) and '-'; option- and assignment-shaped "
        "arguments (-XY, --XY, --X=Y, --aX=Y, -X=Y, X=Y, aXaY, /X/Y, each also after a '--' argument) for all X, Y of "
        "<=1 symbol; all lists of <=3 one-symbol strings and all pairs of strings of <=2 symbols (pairs over the 20 "
        "core symbols in quick, all 34 in thorough); for every rendering fclones prints for a list - join (Arg::quote "
        "per argument), quote() and Path::quote() - fclones' split() and bash (run in a directory holding files that "
        "unquoted glob characters would match) must return exactly the list; and the lines the binary itself prints for trees with 32 hostile names: the `# Command:` line of the report (own splitter and bash must give back the arguments passed) and every line of the dry-run scripts of remove, link, link --soft, dedupe, move (same mount / loop-mounted other mount): both decoders agree and every path-like word is a path of the tree, a temporary sibling or its place under the target. A case is non-trivial when quoting was "
        "needed (style '..' or $'..'); distinct_nontrivial counts those strings/lists.")
ASSUMPTIONS = ["bash 5 in non-interactive mode with HOME=/fcv-home-sentinel is the reference shell",
               "strings longer than the bound and the 'randomly for long strings' clause are not covered"]
SHARDS = 16


def prepare(tier):
    U.build()
    C.build_hooks()


def cases(tier, seed):
    L = 3 if tier == "quick" else 4
    out = [{"mode": "strings", "len": L, "shard": "%d/%d" % (i, SHARDS)} for i in range(SHARDS)]
    out += [{"mode": "lists", "len": 2, "shard": "%d/%d" % (i, SHARDS), "alpha": "core" if tier == "quick" else "full"}
            for i in range(SHARDS)]
    out += [{"mode": "templates", "len": 1, "shard": "%d/%d" % (i, SHARDS)} for i in range(SHARDS)]
    # what the binary really prints: the `# Command:` line of a report and every line of the dry-run scripts
    from . import c02
    for i, name in enumerate(c02.HOSTILE):
        out.append({"mode": "scripts", "name": name, "index": i})
    return out


TMP_RE = re.compile(r"\.[A-Za-z0-9]{24}$")


def split_file(path):
    rc, out, err, to = C.run([U.UNIT, "quote", "--split-file", path], cwd="/", env={"PATH": "/usr/bin:/bin", "LC_ALL": "C.UTF-8"},
                             timeout=600)
    if rc != 0 or to:
        raise C.MachineryError("fcv-unit quote --split-file failed: %s" % err.decode("utf-8", "replace")[-500:])
    lines = []
    for raw in out.split(b"\n"):      # LF only (splitlines() would also split at U+0085 etc. inside the strings)
        l = raw.decode("utf-8", "replace")
        if not l.strip():
            continue
        j = json.loads(l)
        if j.get("type") == "line":
            lines.append(j)
    return lines


def evaluate_scripts(case):
    """The lines the binary prints in shell-quoted form: the report's `# Command:` line and the dry-run scripts of
    every dedupe command (move: same mount and, if possible, another mount known to fclones). Each line is decoded by
    fclones' own splitter and by bash: both must give the same words, the command line must give back the arguments
    that were passed, and every path-like word of a script must be a path of the tree, a temporary sibling of one, or
    its place under the move target."""
    from . import c02
    viol = []
    nlines = 0
    name = case["name"]
    feat0 = {"victim_name_class": c02.name_class(name)}
    with C.Scratch() as sc:
        roots, gargs, entries = c02.hostile_tree(name)
        C.make_tree(sc.tree, entries)
        # an argument that itself needs quoting travels in the command line as well
        utf8 = not any(0xdc80 <= ord(ch) <= 0xdcff for ch in name)
        extra_args = ["--name", "*"] + (["--exclude=" + name + "/zzz"] if utf8 else [])
        roots = list(roots) + ["./d/" + name]    # the hostile name also travels as an input path
        argv_group = ["group", "--min", "0"] + extra_args + roots
        report = D.make_report(sc, ["--min", "0"] + extra_args, roots)
        known = set()
        for dp, dns, fns in os.walk(sc.tree):
            known.add(dp)
            for fn in fns:
                known.add(os.path.join(dp, fn))
        hdr = [l for l in report.split(b"\n") if l.startswith(b"# Command: ")]
        if len(hdr) != 1:
            raise C.MachineryError("no command line in the report header")
        cmdfile = os.path.join(sc.root, "cmdline.txt")
        with open(cmdfile, "wb") as f:
            f.write(hdr[0][len(b"# Command: "):] + b"\n")
        for j in split_file(cmdfile):
            nlines += 1
            exp = [C.b(C.FCLONES).hex()] + [C.b(a).hex() for a in argv_group]
            for who in ("own", "bash"):
                if j[who] != exp:
                    viol.append(dict(feat0, kind="command_line_not_recovered", decoder=who, what="report_header",
                                     detail="`# Command:` line %r decoded by %s to %s, arguments were %s" % (
                                         j["text"], who, j[who] if j[who] is None else [bytes.fromhex(x) for x in j[who]], argv_group)))
        target = os.path.join(sc.root, "moved")
        ops = ["remove", "link", "softlink", "dedupe", "move"]
        loop = None
        if C.can_loop_mount():
            ops.append("move_other_mount")
        for op in ops:
            tgt = target
            try:
                if op == "move_other_mount":
                    loop = C.LoopMount(os.path.join(C.EXT4, "fcv.%d.c17loop" % os.getpid()))
                    loop.__enter__()
                    tgt = os.path.join(loop.mp, "moved")
                r = D.run_dedupe(sc, "move" if op == "move_other_mount" else op, [], report, dry_run=True, target=tgt)
            finally:
                if loop:
                    loop.__exit__()
                    loop = None
            if r["rc"] != 0:
                viol.append(dict(feat0, kind="dry_run_failed", what=op, detail=r["err"][-300:]))
                continue
            sf = os.path.join(sc.root, "script.%s.sh" % op)
            with open(sf, "wb") as f:
                f.write(r["out"].encode("utf-8", "surrogateescape"))
            for j in split_file(sf):
                nlines += 1
                feat = dict(feat0, what="script_" + op)
                if j["own"] is None or j["bash"] is None:
                    viol.append(dict(feat, kind="script_line_not_decodable", decoder="own" if j["own"] is None else "bash",
                                     detail="line %r: own splitter %s (%s), bash %s" % (j["text"], j["own"], j["own_error"], j["bash"])))
                    continue
                if j["own"] != j["bash"]:
                    viol.append(dict(feat, kind="script_line_decoders_disagree",
                                     detail="line %r: own splitter %s, bash %s" % (
                                         j["text"], [bytes.fromhex(x) for x in j["own"]], [bytes.fromhex(x) for x in j["bash"]])))
                for hx in j["bash"][1:]:
                    w = os.fsdecode(bytes.fromhex(hx))
                    if not w.startswith("/"):
                        continue
                    ok = w in known or TMP_RE.sub("", w) in known
                    if not ok and w.startswith(tgt):
                        rest = "/" + os.path.normpath(w[len(tgt):]).lstrip("/")     # "<target>/./abs/path" names <target>/abs/path
                        ok = rest in ("", "/") or rest in known or TMP_RE.sub("", rest) in known or any(k.startswith(rest.rstrip("/") + "/") for k in known)
                    if not ok:
                        viol.append(dict(feat, kind="script_names_unknown_path",
                                         detail="line %r: bash sees the word %r, which is neither a path of the tree, a temporary "
                                                "sibling, nor a place under the target" % (j["text"], w)))
    return {"violations": viol, "evaluations": nlines, "counters": {"script_lines": nlines, "nontrivial": nlines},
            "nontrivial": None, "outcome": "scripts_ok" if not viol else "scripts_violations",
            "sample": {"case": case, "lines": nlines}}


def evaluate(case):
    if case.get("mode") == "scripts":
        return evaluate_scripts(case)
    if "one" in case:
        viol, summ = U.run_unit(["quote", "--one", case["one"]])
    else:
        args = ["quote", "--len", str(case["len"]), "--shard", case["shard"]]
        if case["mode"] == "lists":
            args += ["--lists", "--alpha", case.get("alpha", "core")]
        elif case["mode"] == "templates":
            args.append("--templates")
        viol, summ = U.run_unit(args)
    vs = []
    for v in viol:
        ex = v["examples"][0]
        d = dict(v["sig"])
        d["detail"] = "%d case(s), e.g. input %s quoted as %r decoded to %s" % (
            v["count"], ex["input_hex"], ex["quoted"], ex["got"])
        d["replay_case"] = {"one": ex["input_hex"]}
        vs.append(d)
    return {"violations": vs, "evaluations": summ["lists"],
            "counters": {"nontrivial": summ["style_dollar"] + summ["style_single"],
                         "bash_checked": summ["bash_checked"], "style_dollar": summ["style_dollar"],
                         "style_single": summ["style_single"], "style_bare": summ["style_bare"]},
            "nontrivial": None, "outcome": "shard_ok" if not viol else "shard_violations",
            "sample": {"case": case, "summary": summ}}


def coverage_extra(stats, tier):
    c = stats.get("counters", {})
    return {"distinct_nontrivial": c.get("nontrivial", 0)}


def finish(stats, tier):
    c = stats.get("counters", {})
    out = []
    if not c.get("script_lines"):
        out.append("no line printed by the binary was decoded")
    if c.get("bash_checked", 0) != stats["evaluations"] - c.get("script_lines", 0):
        out.append("not every list was cross-checked with bash")
    for k in ("style_dollar", "style_single", "style_bare"):
        if not c.get(k):
            out.append("quoting style never exercised: " + k)
    return out
