"""C17 Shell quoting of paths and arguments is lossless (shape I, engine E3 + bash)."""
from .. import unitcheck as U

ID = "C17"
LEVEL = "exploration"
RULE = ("all strings of 1..L symbols over a 34-symbol alphabet (L=3 quick, 4 thorough): troublesome bytes/characters "
        "(blank, tab, LF, quotes, backslash, $, `, *, #, ~, =, !, non-ASCII, U+00A0, DEL, invalid UTF-8), every other "
        "ASCII character bash gives a meaning to (? [ ] { } , ; & | < > ( )) and '-'; option- and assignment-shaped "
        "arguments (-XY, --XY, --X=Y, --aX=Y, -X=Y, X=Y, aXaY, /X/Y, each also after a '--' argument) for all X, Y of "
        "<=1 symbol; all lists of <=3 one-symbol strings and all pairs of strings of <=2 symbols (pairs over the 20 "
        "core symbols in quick, all 34 in thorough); for every rendering fclones prints for a list - join (Arg::quote "
        "per argument), quote() and Path::quote() - fclones' split() and bash (run in a directory holding files that "
        "unquoted glob characters would match) must return exactly the list. A case is non-trivial when quoting was "
        "needed (style '..' or $'..'); distinct_nontrivial counts those strings/lists.")
ASSUMPTIONS = ["bash 5 in non-interactive mode with HOME=/fcv-home-sentinel is the reference shell",
               "strings longer than the bound and the 'randomly for long strings' clause are not covered"]
SHARDS = 16


def prepare(tier):
    U.build()


def cases(tier, seed):
    L = 3 if tier == "quick" else 4
    out = [{"mode": "strings", "len": L, "shard": "%d/%d" % (i, SHARDS)} for i in range(SHARDS)]
    out += [{"mode": "lists", "len": 2, "shard": "%d/%d" % (i, SHARDS), "alpha": "core" if tier == "quick" else "full"}
            for i in range(SHARDS)]
    out += [{"mode": "templates", "len": 1, "shard": "%d/%d" % (i, SHARDS)} for i in range(SHARDS)]
    return out


def evaluate(case):
    if "one" in case:
        viol, summ = U.run_unit(["quote", "--one", case["one"]])
    else:
        args = ["quote", "--len", str(case["len"]), "--shard", case["shard"]]
        if case["mode"] == "lists":
            args += ["--lists", "--alpha", case.get("alpha", "core")]
        elif case["mode"] == "templates":
            args.append("--templates")
        viol, summ = U.run_unit(args)
    vs = []
    for v in viol:
        ex = v["examples"][0]
        d = dict(v["sig"])
        d["detail"] = "%d case(s), e.g. input %s quoted as %r decoded to %s" % (
            v["count"], ex["input_hex"], ex["quoted"], ex["got"])
        d["replay_case"] = {"one": ex["input_hex"]}
        vs.append(d)
    return {"violations": vs, "evaluations": summ["lists"],
            "counters": {"nontrivial": summ["style_dollar"] + summ["style_single"],
                         "bash_checked": summ["bash_checked"], "style_dollar": summ["style_dollar"],
                         "style_single": summ["style_single"], "style_bare": summ["style_bare"]},
            "nontrivial": None, "outcome": "shard_ok" if not viol else "shard_violations",
            "sample": {"case": case, "summary": summ}}


def coverage_extra(stats, tier):
    c = stats.get("counters", {})
    return {"distinct_nontrivial": c.get("nontrivial", 0)}


def finish(stats, tier):
    c = stats.get("counters", {})
    out = []
    if c.get("bash_checked", 0) != stats["evaluations"]:
        out.append("not every list was cross-checked with bash")
    for k in ("style_dollar", "style_single", "style_bare"):
        if not c.get(k):
            out.append("quoting style never exercised: " + k)
    return out
