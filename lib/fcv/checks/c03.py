"""C03 Every duplicate among the scanned files is reported, exactly once (shape I, engine E2)."""
import itertools

from .. import common as C
from .. import grouplab as G

ID = "C03"
LEVEL = "exploration"
RULE = ("same-size families: every multiset of n files (n<=3 quick, <=5 thorough) over the variants {base, flipped at 0, "
        "at L/2, at L-1, at 4096} for L in {1,4096,4097,65536,131073}, laid out over 1-3 directories and 1-2 roots (one layout puts the second root on a loop-mounted ext4 image, i.e. a second device with its own hashing pool and its own pinned kind; one puts the files on two fresh tmpfs instances below one root, where the k-th files have equal inode numbers on different file systems), with "
        "optional hard links and repeated / overlapping roots; trees of files with equal base names in different directories under a $IN transform and pools of 4-8 threads; overlapping input paths in several orders under --depth 1 / 2 with walking pools of one thread; plus three trees whose paths concatenate to the same bytes (ab/c vs a/bc; as hard links, plain copies and directories, also with -L / -H); x replication filter {default, --rf-over 0/2/3, "
        "--rf-under 2/3, --unique} x prefix/suffix sizes, disk kind, transform {keep, shrink to two bytes (also with -H)} (thorough: hash, cache, -t 1). "
        "Oracle: independent partition of the scanned files by bytes + replica count + strict filter; the reported set of "
        "path sets must be equal; no path twice; no unscanned path. Non-trivial = expected result has at least one "
        "group; distinct by (tree, configuration).")
ASSUMPTIONS = ["trees contain no hidden/ignored files and no symlinks (the scan itself is C09's subject)",
               "disk kind pinned through the verification hook"]

LENS_Q = [1, 4097, 65536]
LENS_T = [1, 4096, 4097, 65536, 131073]
FILTERS = [[], ["--rf-over", "0"], ["--rf-over", "2"], ["--rf-over", "3"], ["--rf-under", "2"], ["--rf-under", "3"],
           ["--unique"]]


def variants(L):
    offs = sorted(set(o for o in (0, L // 2, L - 1, 4096) if 0 <= o < L))
    return [["base", L, 0]] + [["flip", L, 0, o] for o in offs]


LAYOUTS = [
    # (name, [(root, dir) per file index cyclic], roots given on the command line)
    ("one_dir", [("r1", "d")], ["r1"]),
    ("three_dirs", [("r1", "d1"), ("r1", "d2"), ("r1", "d3/sub")], ["r1"]),
    ("two_roots", [("r1", "d1"), ("r2", "d2")], ["r1", "r2"]),
    ("two_roots_rev", [("r1", "d1"), ("r2", "d2")], ["r2", "r1"]),
    ("repeated_root", [("r1", "d1"), ("r1", "d2")], ["r1", "r1"]),
    ("overlapping_roots", [("r1", "d1"), ("r1", "d2")], ["r1", "r1/d1"]),
    ("file_roots", [("r1", "d1"), ("r1", "d2")], None),   # every file given explicitly
    # r2 is a loop-mounted ext4 image: a second device in fclones' own device table, hashed by its own thread pool
    ("two_devices", [("r1", "d1"), ("r2", "d2")], ["r1", "r2"]),
    # m1 and m2 are two fresh tmpfs instances below one root: the k-th file of each gets the same inode number, and
    # fclones' device table does not list tmpfs, so both belong to one "device" (one hashing pool, one id space?)
    ("two_tmpfs", [("r1", "m1"), ("r1", "m2")], ["r1"]),
]


def prepare(tier):
    C.build_hooks()


def build_tree(L, combo, layout, hard):
    name, places, roots = layout
    tree = []
    paths = []
    for i, v in enumerate(combo):
        root, d = places[i % len(places)]
        p = "%s/%s/f%d" % (root, d, i)
        tree.append({"p": p, "k": "file", "c": v})
        paths.append(p)
    if hard:
        root, d = places[0] if name in ("two_devices", "two_tmpfs") else places[-1]   # a hard link cannot cross devices
        tree.append({"p": "%s/%s/hl0" % (root, d), "k": "hard", "to": paths[0]})
        paths.append("%s/%s/hl0" % (root, d))
    if roots is None:
        roots = list(paths)
    # every root must exist
    present = set(p.split("/")[0] for p in paths)
    for r in roots:
        if r.split("/")[0] not in present:
            tree.append({"p": r, "k": "dir"})
    for r in roots:
        if "/" in r and not any(p.startswith(r + "/") or p == r for p in paths):
            tree.append({"p": r, "k": "dir"})
    return tree, roots


def cases(tier, seed):
    quick = tier == "quick"
    out = []
    idx = 0
    for L in (LENS_Q if quick else LENS_T):
        vs = variants(L)
        for n in range(2, (3 if quick else 5) + 1):
            for combo in itertools.combinations_with_replacement(range(len(vs)), n):
                files = [vs[i] for i in combo]
                for fi, flt in enumerate(FILTERS):
                    idx += 1
                    layout = LAYOUTS[idx % len(LAYOUTS)]
                    hard = (idx // len(LAYOUTS)) % 3 == 0
                    tree, roots = build_tree(L, files, layout, hard)
                    disk = ["ssd", "unknown", "hdd"][idx % 3] if not quick else ["ssd", "unknown"][idx % 2]
                    extra = []
                    sel = (idx // 7) % 6
                    if sel == 1:
                        extra = ["--max-prefix-size", "1"]
                    elif sel == 2:
                        extra = ["--max-suffix-size", "1"]
                    elif sel == 3:
                        extra = ["--max-prefix-size", "1MiB"]
                    elif sel == 4:
                        extra = ["--max-suffix-size", "1MiB"]
                    args = ["--min", "0"] + flt + extra
                    meta = {"L": L, "combo": list(combo), "layout": layout[0], "hard": hard, "filter": " ".join(flt) or "default",
                            "disk": disk, "extra": extra, "tr": None}
                    out.append({"tree": tree, "roots": roots, "args": args, "env": {"FCLONES_VERIF_DISK_KIND": disk},
                                "meta": meta})
                    if layout[0] in ("repeated_root", "overlapping_roots", "file_roots", "two_roots") and (idx // len(LAYOUTS)) % 2 == 0:
                        # the same input paths on standard input (with and without --match-links / a transform)
                        for more, tr in (([], None), (["-H"], None), (G.transform_args("keep", "pipe"), ["keep", "pipe"])):
                            m2 = dict(meta, extra=extra + more[:1] + ["--stdin"], tr=tr)
                            out.append({"tree": tree, "roots": roots, "args": args + more, "stdin_roots": True,
                                        "env": {"FCLONES_VERIF_DISK_KIND": disk}, "meta": m2})
                    if not quick and idx % 5 == 0:
                        for more, rep in ((["--hash-fn", "blake3"], 1), (["--cache"], 2), (["-t", "1"], 1),
                                          (["--hash-fn", "sha512", "--cache"], 2)):
                            m2 = dict(meta, extra=extra + more)
                            out.append({"tree": tree, "roots": roots, "args": args + more, "repeat": rep,
                                        "env": {"FCLONES_VERIF_DISK_KIND": disk}, "meta": m2})
                    if (quick and idx % 9 == 0) or (not quick and idx % 3 == 0):
                        m2 = dict(meta, tr=["keep", "pipe"])
                        out.append({"tree": tree, "roots": roots, "args": args + G.transform_args("keep", "pipe"),
                                    "env": {"FCLONES_VERIF_DISK_KIND": disk}, "meta": m2})
                    if (quick and idx % 9 == 4) or (not quick and idx % 3 == 1):
                        # a transform that changes the length (first two bytes), with and without --match-links
                        ml = ["-H"] if (idx // 9) % 2 else []
                        m2 = dict(meta, tr=["shrink", "pipe"], extra=extra + ml)
                        out.append({"tree": tree, "roots": roots, "args": args + ml + G.transform_args("shrink", "pipe"),
                                    "env": {"FCLONES_VERIF_DISK_KIND": disk}, "meta": m2})
    # equal base names in different directories, transformed through private copies ($IN) by pools of several threads
    for L in (10, 5000):
        for ti, variants_ in enumerate(([0, 0, 1, 1, 2], [0, 1, 0, 1, 0, 1])):
            vs = variants(L)
            tree = [{"p": "r1/d%d/same.name" % i, "k": "file", "c": vs[v % len(vs)]} for i, v in enumerate(variants_)]
            for flt in ([], ["--rf-over", "0"], ["--unique"]):
                for threads in (["-t", "8"], ["-t", "default:4,4"]):
                    meta = {"L": L, "combo": variants_, "layout": "same_base_names", "hard": False,
                            "filter": " ".join(flt) or "default", "disk": "ssd", "extra": threads, "tr": ["barrierkeep", "in"]}
                    # (the program reads its input only after the programs of four files have started: overlap is forced)
                    out.append({"tree": tree, "roots": ["r1"], "args": ["--min", "0"] + flt + threads + G.transform_args("barrierkeep", "in"),
                                "env": {"FCLONES_VERIF_DISK_KIND": "ssd", "FCV_TR_BARRIER_DIR": "@TMPDIR@/../fcv-barrier",
                                        "FCV_TR_BARRIER_N": "4"}, "meta": meta, "repeat": 2})
    # fclones run by an unprivileged user over files it may read but does not own (O_NOATIME is refused with EPERM for
    # such files; the plain open works): nothing readable may drop out
    from . import c20
    if c20.can_unpriv():
        for L in (10, 5000, 70000):
            vs = variants(L)
            tree = [{"p": "r1/d%d/f%d" % (i % 2, i), "k": "file", "c": vs[0]} for i in range(3)] + \
                   [{"p": "r1/d0/o1", "k": "file", "c": vs[1]}, {"p": "r1/d1/o2", "k": "file", "c": vs[1]}]
            for flt in ([], ["--rf-over", "0"], ["--unique"]):
                for extra in ([], ["-t", "1"], G.transform_args("keep", "pipe")):
                    meta = {"L": L, "combo": [0, 0, 0, 1, 1], "layout": "unprivileged_user", "hard": False,
                            "filter": " ".join(flt) or "default", "disk": "ssd", "extra": extra[:2], "tr": ["keep", "pipe"] if "--transform" in extra else None}
                    out.append({"tree": tree, "roots": ["r1"], "args": ["--min", "0"] + flt + extra, "ext4": True, "unpriv": True,
                                "env": {"FCLONES_VERIF_DISK_KIND": "ssd"}, "meta": meta})
    # a transform that fails ONCE (for the first file of the class, after two bytes of output) in a cached run; the
    # same command again, now working: the second report must be complete - nothing the failed attempt left behind
    # (in the cache) may make a readable file drop out of its class
    for L in (10, 5000):
        vs = variants(L)
        tree = [{"p": "r1/d%d/f%d" % (i % 2, i), "k": "file", "c": vs[0]} for i in range(3)] + \
               [{"p": "r1/d0/other", "k": "file", "c": vs[1]}]
        for mode in ("pipe", "in"):
            for flt in ([], ["--rf-over", "0"], ["--unique"]):
                for threads in (["-t", "1"], []):
                    meta = {"L": L, "combo": [0, 0, 0, 1], "layout": "transform_fails_once", "hard": False,
                            "filter": " ".join(flt) or "default", "disk": "ssd", "extra": ["--cache"] + threads, "tr": ["failonce", mode]}
                    out.append({"tree": tree, "roots": ["r1"], "args": ["--min", "0", "--cache"] + flt + threads + G.transform_args("failonce", mode),
                                "env": {"FCLONES_VERIF_DISK_KIND": "ssd", "FCV_TR_FAIL_PREFIX": "hex:" + C.content(vs[0])[:4].hex(),
                                        "FCV_TR_MARKER": "@TMPDIR@/../failed-once"},
                                "meta": meta, "repeat": 2, "judge_only_last": True})
    # files of DIFFERENT lengths that a transform makes identical (two bytes each), grouped three times with --cache:
    # what the warm runs take from the cache (hash AND transformed length) must give the same classes as the cold run
    lits = ["aa" + "x" * 3, "aa" + "y" * 10, "aa" + "z" * 300, "bbq", "bb" + "w" * 20]
    tree = [{"p": "r1/d%d/f%d" % (i % 2, i), "k": "file", "c": ["lit", t]} for i, t in enumerate(lits)]
    for mode in ("pipe", "in"):
        for flt in ([], ["--rf-over", "0"], ["--rf-over", "2"], ["--unique"]):
            for threads in (["-t", "1"], []):
                meta = {"L": 0, "combo": [0, 0, 0, 1, 1], "layout": "warm_cache_transformed_lengths", "hard": False,
                        "filter": " ".join(flt) or "default", "disk": "ssd", "extra": ["--cache"] + threads, "tr": ["shrink", mode]}
                out.append({"tree": tree, "roots": ["r1"], "args": ["--min", "0", "--cache"] + flt + threads + G.transform_args("shrink", mode),
                            "env": {"FCLONES_VERIF_DISK_KIND": "ssd"}, "meta": meta, "repeat": 3})
    # overlapping input paths under a depth limit: what one root may not descend into, another root reaches directly
    tree = [{"p": "r1/f0", "k": "file", "c": ["base", 10, 0]}, {"p": "r1/d1/f1", "k": "file", "c": ["base", 10, 0]},
            {"p": "r1/d1/sub/f2", "k": "file", "c": ["base", 10, 0]}, {"p": "r1/d1/sub/deep/f3", "k": "file", "c": ["base", 10, 0]},
            {"p": "r1/d2/f4", "k": "file", "c": ["flip", 10, 0, 9]}, {"p": "r1/d1/f5", "k": "file", "c": ["flip", 10, 0, 9]}]
    for order in (["r1", "r1/d1"], ["r1/d1", "r1"], ["r1/d1/sub", "r1/d1", "r1"], ["r1", "r1/d1/sub"]):
        for depth in ("1", "2"):
            for pool in ([], ["-t", "main:1"], ["-t", "1"]):
                for flt in ([], ["--rf-over", "0"], ["--unique"]):
                    meta = {"L": 10, "combo": [int(depth)], "layout": "overlap_depth:" + ",".join(order), "hard": False,
                            "filter": " ".join(flt) or "default", "disk": "ssd", "extra": ["--depth", depth] + pool, "tr": None}
                    out.append({"tree": tree, "roots": order, "args": ["--min", "0", "--depth", depth] + pool + flt,
                                "env": {"FCLONES_VERIF_DISK_KIND": "ssd"}, "meta": meta, "repeat": 2})
    # paths whose components concatenate to the same bytes (ab/c vs a/bc): as hard links of one file, as plain
    # duplicates, and as directories entered with -L
    collide = [
        [{"p": "r1/ab/c", "k": "file", "c": ["base", 4097, 0]}, {"p": "r1/a/bc", "k": "hard", "to": "r1/ab/c"},
         {"p": "r1/x/f", "k": "file", "c": ["base", 4097, 0]}, {"p": "r1/y/g", "k": "file", "c": ["flip", 4097, 0, 4096]}],
        [{"p": "r1/ab/c", "k": "file", "c": ["base", 10, 0]}, {"p": "r1/a/bc", "k": "file", "c": ["base", 10, 0]},
         {"p": "r1/abc", "k": "file", "c": ["base", 10, 0]}],
        [{"p": "r1/ab/c/f1", "k": "file", "c": ["base", 10, 0]}, {"p": "r1/a/bc/f2", "k": "file", "c": ["base", 10, 0]},
         {"p": "r1/a/b/c/f3", "k": "file", "c": ["base", 10, 0]}, {"p": "r1/abc/f4", "k": "file", "c": ["flip", 10, 0, 9]}],
    ]
    for ti, tree in enumerate(collide):
        for flt in FILTERS:
            for more in ([], ["-H"], ["-L"], ["-L", "-H"]):
                meta = {"L": tree[0]["c"][1], "combo": [ti], "layout": "colliding_concatenation", "hard": ti == 0,
                        "filter": " ".join(flt) or "default", "disk": "ssd", "extra": more, "tr": None}
                out.append({"tree": tree, "roots": ["r1"], "args": ["--min", "0"] + flt + more,
                            "env": {"FCLONES_VERIF_DISK_KIND": "ssd"}, "meta": meta})
    return out


def evaluate(case):
    meta = case["meta"]
    if meta["layout"] == "two_devices":
        import os
        if not C.can_loop_mount():
            return {"violations": [], "nontrivial": None, "outcome": "skipped_no_loop_mount"}
        with C.Scratch() as sc:
            os.makedirs(os.path.join(sc.tree, "r2"))
            with C.LoopMount(os.path.join(sc.tree, "r2")):
                # the second device gets its own kind (rotating): different prefix lengths and pools per device
                k2 = ["hdd", "ssd", "unknown"][(meta["L"] + sum(meta["combo"]) + len(meta["filter"])) % 3]
                case = dict(case, env=dict(case["env"], FCLONES_VERIF_DISK_KIND_AT="%s=%s" % (k2, os.path.join(sc.tree, "r2"))))
                obs = G.run_group(case, scratch=sc)
                obs["files"] = G.scan_reference(sc.tree, case)
    elif meta["layout"] == "two_tmpfs":
        import os
        import subprocess
        from . import c09
        if not c09.can_mount():
            return {"violations": [], "nontrivial": None, "outcome": "skipped_no_mount"}
        with C.Scratch() as sc:
            mounts = []
            try:
                for m in ("m1", "m2"):
                    d = os.path.join(sc.tree, "r1", m)
                    os.makedirs(d)
                    if subprocess.run(["mount", "-t", "tmpfs", "none", d]).returncode != 0:
                        return {"violations": [], "nontrivial": None, "outcome": "skipped_no_mount"}
                    mounts.append(d)
                obs = G.run_group(case, scratch=sc)
                obs["files"] = G.scan_reference(sc.tree, case)
            finally:
                for d in mounts:
                    subprocess.run(["umount", d])
    else:
        obs = G.run_group(case)
    return judge(case, obs)


def judge(case, obs):
    meta = case["meta"]
    ref = obs["files"]
    trop = meta["tr"][0] if meta["tr"] else None
    exp = [e for e in G.expected_groups(ref, case, trop)]
    exp_rep = set(e["paths"] for e in exp if e["reported"])
    class_of = {}
    for e in exp:
        for p in e["paths"]:
            class_of[p] = e["paths"]
    viol = []
    feat = {"transform": bool(trop), "filter": meta["filter"],
            "suffix_size_exceeds_len": "--max-suffix-size" in meta["extra"] and "1MiB" in meta["extra"]}
    outcome = []
    for ri, run in enumerate(obs["runs"]):
        if case.get("judge_only_last") and ri < len(obs["runs"]) - 1:
            continue
        if run["timeout"]:
            viol.append(dict(feat, kind="hang", detail="group did not finish: %s" % case["args"]))
            continue
        if run["rc"] != 0 or run["report"] is None:
            kind = "crash" if ("panicked" in run["err"] or run["rc"] not in (0, 1)) else "error_exit"
            viol.append(dict(feat, kind=kind, detail="group exited with %s: %s; args %s roots %s" % (
                run["rc"], run["err"][-300:], case["args"], case["roots"])))
            outcome.append(kind)
            continue
        got = G.observed_groups(run["report"])
        seen = {}
        got_sets = set()
        for g in got:
            ps = g["paths"]
            for p in ps:
                if p in seen:
                    viol.append(dict(feat, kind="duplicate_path", detail="%s listed twice; args %s roots %s" % (p, case["args"], case["roots"])))
                seen[p] = True
                if p not in ref["files"]:
                    viol.append(dict(feat, kind="extra_path", detail="%s was not selected by the scan; args %s" % (p, case["args"])))
            got_sets.add(frozenset(ps))
        for s in got_sets - exp_rep:
            classes = set(class_of.get(p) for p in s)
            if len(classes) > 1:
                k = "classes_merged"
            elif classes and next(iter(classes)) is not None and s < next(iter(classes)):
                full = next(iter(classes))
                k = "class_split" if full in exp_rep else "filter_ignored"
                if full in exp_rep and not any((full - s) & o for o in got_sets if o != s):
                    k = "path_missing"
            else:
                k = "filter_ignored"
            viol.append(dict(feat, kind=k, detail="unexpected group %s; expected %s; args %s roots %s run %d" % (
                sorted(s), [sorted(x) for x in exp_rep], case["args"], case["roots"], ri)))
        for s in exp_rep - got_sets:
            if not any(s & o for o in got_sets):
                viol.append(dict(feat, kind="class_missing", detail="expected group %s not reported; args %s roots %s disk %s run %d"
                                 % (sorted(s), case["args"], case["roots"], meta["disk"], ri)))
        outcome.append("groups" if got else "no_groups")
    nontrivial = [meta["L"], meta["combo"], meta["layout"], meta["hard"], meta["filter"], meta["extra"], meta["disk"],
                  meta["tr"]] if exp_rep else None
    nsplit = len(set(e["paths"] for e in exp))
    inos = {}
    for f in ref["files"].values():
        inos.setdefault(f["ino"], set()).add(f["dev"])
    same_ino = any(len(d) > 1 for d in inos.values())
    return {"violations": viol, "nontrivial": nontrivial, "outcome": outcome,
            "counters": {"expected_groups": len(exp_rep), "multi_class_cases": 1 if nsplit > 1 else 0,
                         "equal_inode_numbers_on_two_file_systems": 1 if same_ino else 0},
            "sample": {"roots": case["roots"], "args": case["args"], "meta": meta,
                       "expected": [sorted(x) for x in exp_rep][:3]}}


def finish(stats, tier):
    c = stats.get("counters", {})
    out = []
    if not c.get("expected_groups"):
        out.append("the reference never expected a group")
    if not c.get("multi_class_cases"):
        out.append("no tree with more than one content class")
    from . import c09
    if c09.can_mount() and not c.get("equal_inode_numbers_on_two_file_systems"):
        out.append("no tree with equal inode numbers on two file systems")
    return out


RULE += ' Since rounds 10-11 also: runs as uid 65534 over files owned by root; three cached runs under a transform that makes files of different lengths identical.'
