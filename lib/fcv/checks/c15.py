"""C15 An unreadable or vanishing file affects only itself (shape F, engine E1 fail@k on read-side calls)."""
import itertools
import os
import re

from .. import common as C
from .. import grouplab as G
from .. import shimlab as S

ID = "C15"
LEVEL = "fault_enumeration"
RULE = ("trees {three classes incl. a 131073-byte class that reaches the suffix and content stages under the SSD pin, nested "
        "directories, a hard link; the same with file/directory symlinks and -L; a tree on ext4 under the HDD pin so that "
        "FIEMAP is issued; a small tree under the 'unknown' pin; a tree spread over three input paths, given as arguments and through --stdin, where every call on an input path after the up-front existence check is a fault point; the small tree also under --transform (pipe and $IN), and with a transform program that itself fails for one file (exit status 1 after partial output), run twice with and without --cache, and with a transform command whose path does not exist}, `group -t 1` (two of the trees also with --unique, "
        "--rf-under 3 and --rf-over 0); the read-side call history (stat, lstat, "
        "open, every read, opendir, every readdir, readlink, realpath, FIEMAP ioctl) is recorded twice (must be "
        "identical); then EVERY event k fails with EACCES, EIO and ENOENT, every open also together with the call that follows it (the O_NOATIME attempt and its fall-back: the entry vanished) (thorough: also every pair k1<k2 for the small "
        "tree). Oracle: exit 0 and a parsable report that equals the reference result (partition + replication filter) of the "
        "tree without some subset S of the entries affected by the failing call (the path and - unless the errno is ENOENT, which concerns one directory entry - the other links of the file; the sub-tree for a directory call), S empty (and then every group with the length and hash of the fault-free run) "
        "for FIEMAP faults and probes of absent ignore files; a warning unless the errno is ENOENT; every reported group "
        "byte-identical; a path whose two opens both failed with ENOENT is not listed at all. distinct_nontrivial = distinct (tree, k, errno) reached.")
ASSUMPTIONS = ["input validation is not part of the property and is skipped: the stat/realpath of the base directory, the "
               "up-front existence check of input paths given as arguments (their first call) and, when there is only "
               "one input path, every call on it before the walk starts (a run left without any input may fail)", "single-threaded pools (-t 1) for a deterministic history"]


def tree_main():
    return [
        {"p": "r/d1/a1", "k": "file", "c": ["base", 5000, 1]}, {"p": "r/d1/a2", "k": "file", "c": ["base", 5000, 1]},
        {"p": "r/d2/a3", "k": "file", "c": ["base", 5000, 1]}, {"p": "r/d2/a1h", "k": "hard", "to": "r/d1/a1"},
        {"p": "r/d1/b1", "k": "file", "c": ["base", 131073, 2]}, {"p": "r/d2/sub/b2", "k": "file", "c": ["base", 131073, 2]},
        {"p": "r/d2/sub/b3", "k": "file", "c": ["flip", 131073, 2, 70000]},
        {"p": "r/c1", "k": "file", "c": ["lit", "cccccccccc"]}, {"p": "r/d2/c2", "k": "file", "c": ["lit", "cccccccccc"]},
        {"p": "r/u", "k": "file", "c": ["lit", "uuuuuuuuuu"]},
    ]


TREES = {
    "main_ssd": (tree_main(), [], "ssd", False),
    "links_follow": (tree_main() + [{"p": "r/ldir", "k": "sym", "to": "../outside"},
                                    {"p": "outside/o1", "k": "file", "c": ["lit", "cccccccccc"]},
                                    {"p": "r/lfile", "k": "sym", "to": "d1/a1"}], ["-L"], "ssd", False),
    "ext4_hdd": ([{"p": "r/x1", "k": "file", "c": ["base", 20000, 3]}, {"p": "r/d/x2", "k": "file", "c": ["base", 20000, 3]},
                  {"p": "r/d/x3", "k": "file", "c": ["flip", 20000, 3, 19999]}], [], "hdd", True),
    "small_unknown": ([{"p": "r/p1", "k": "file", "c": ["lit", "same"]}, {"p": "r/p2", "k": "file", "c": ["lit", "same"]},
                       {"p": "r/q1", "k": "file", "c": ["lit", "diff"]}, {"p": "r/s/p3", "k": "file", "c": ["lit", "same"]}],
                      [], "unknown", False),
}
# several input paths (as arguments and through --stdin): a fault on one root must not affect the other roots
TREES["three_roots"] = ([{"p": "r/a1", "k": "file", "c": ["lit", "same"]}, {"p": "r2/a2", "k": "file", "c": ["lit", "same"]},
                         {"p": "r3/s/a3", "k": "file", "c": ["lit", "same"]}, {"p": "r2/b1", "k": "file", "c": ["lit", "bbbb"]},
                         {"p": "r3/b2", "k": "file", "c": ["lit", "bbbb"]}, {"p": "r/u", "k": "file", "c": ["lit", "uniq"]}],
                        [], "ssd", False)
# overlapping input paths on a file system with FIEMAP under the HDD pin: the files below r/d are collected twice and
# the extent query is issued for each occurrence - a failing query may not make fclones list the file twice
TREES["ext4_hdd_overlap"] = (TREES["ext4_hdd"][0] + [{"p": "r/d/x4", "k": "file", "c": ["base", 20000, 3]}], [], "hdd", True)
# two fresh tmpfs instances below the root: the first files of both have the same inode number (and here the same
# bytes): a fault on one of them concerns that file, not its namesake by inode number on the other file system
TREES["two_tmpfs"] = ([{"p": "r/m1", "k": "tmpfs"}, {"p": "r/m2", "k": "tmpfs"},
                       {"p": "r/m1/one", "k": "file", "c": ["base", 20000, 4]}, {"p": "r/m2/one", "k": "file", "c": ["base", 20000, 4]},
                       {"p": "r/m1/two", "k": "file", "c": ["base", 20000, 4]}, {"p": "r/m2/other", "k": "file", "c": ["flip", 20000, 4, 19999]}],
                      [], "ssd", False)
# MANY files in one size class (200 files of 17 bytes, 100 pairs): hashing work may be handed out in batches; a fault on
# one file at the start / in the middle / around multiples of 64 / at the end of the visiting order concerns that file
TREES["many"] = ([{"p": "r/m%d/f%03d" % (i % 3, i), "k": "file", "c": ["base", 17, i // 2 + 1]} for i in range(200)], [], "ssd", False)
ROOTS = {"three_roots": ["r", "r2", "r3"], "ext4_hdd_overlap": ["r", "r/d"]}
ERRNOS = ["EACCES", "EIO", "ENOENT"]


def prepare(tier):
    S.prepare()


def cases(tier, seed):
    out = [{"tree": t, "pairs": False, "tier": tier} for t in TREES if t != "many"]
    for flt in ([], ["--rf-over", "0"]):
        out.append({"tree": "many", "pairs": False, "tier": tier, "filter": flt, "select": "opens"})
    # the same question when unique / under-replicated files are searched: an unreadable file must not be reported
    # as unique, and its former duplicates must be judged as if it were absent
    for flt in (["--unique"], ["--rf-under", "3"], ["--rf-over", "0"]):
        out.append({"tree": "main_ssd", "pairs": False, "tier": tier, "filter": flt})
        out.append({"tree": "small_unknown", "pairs": False, "tier": tier, "filter": flt})
    # --transform: fclones itself opens each file and hands it to the child (pipe mode) or copies it ($IN)
    for tr in (["--transform", "cat"], ["--transform", "cat $IN"]):
        for flt in ([], ["--rf-over", "0"]):
            out.append({"tree": "small_unknown", "pairs": False, "tier": tier, "filter": flt, "transform": tr})
    # the transform program itself fails for one file (after two bytes of output), with and without the cache, twice
    for mode in ("pipe", "in"):
        for cache in (False, True):
            for flt in ([], ["--rf-over", "0"], ["--unique"]):
                out.append({"tree": "small_unknown", "kind": "transform_fails", "tier": tier, "filter": flt, "mode": mode, "cache": cache})
    # a transform command whose path does not exist although a program of that name is on the PATH
    for tr in ("./nonexistent/fcv-tr keep", "/nonexistent/dir/cat", "./nonexistent/fcv-tr keep $IN"):
        out.append({"tree": "small_unknown", "kind": "transform_unlaunchable", "tier": tier, "transform": tr})
    for stdin in (False, True):
        for flt in ([], ["--rf-over", "0"]):
            out.append({"tree": "three_roots", "pairs": False, "tier": tier, "stdin": stdin, "filter": flt})
    if tier == "thorough":
        out.append({"tree": "small_unknown", "pairs": True, "tier": tier})
        out.append({"tree": "three_roots", "pairs": True, "tier": tier, "stdin": True})
    return out


def evaluate_transform_fails(case):
    """`group --transform 'fcv-tr failon'`: the program exits with status 1 (after two bytes of output) for the file
    whose content starts with 'diff' and copies every other file. Run twice (the second time the cache is warm): both
    times the report must be that of the tree without the failing file, with a warning."""
    entries, gargs, disk, ext4 = TREES[case["tree"]]
    viol = []
    flt = case["filter"]
    with C.Scratch() as sc:
        C.make_tree(sc.tree, entries)
        failing = [sc.path(e["p"]).decode() for e in entries if e["k"] == "file" and C.content(e["c"]).startswith(b"diff")]
        if len(failing) != 1:
            raise C.MachineryError("expected exactly one file for which the transform fails")
        files = {}
        for e in entries:
            if e["k"] == "file":
                p = sc.path(e["p"]).decode()
                st = os.stat(p)
                files[p] = {"dev": st.st_dev, "ino": st.st_ino, "len": st.st_size, "data": C.read_file(p), "root": 0}
        ref = {"files": {p: f for p, f in files.items() if p not in failing}, "roots": [os.path.join(sc.tree, "r")]}
        exp = set(e["paths"] for e in G.expected_groups(ref, {"args": ["--min", "0"] + flt}) if e["reported"])
        tr = "fcv-tr failon" + (" $IN" if case["mode"] == "in" else "")
        args = ["group", "-t", "1", "--min", "0", "-f", "json", "--transform", tr] + flt + (["--cache"] if case["cache"] else []) + ["r"]
        env = {"FCLONES_VERIF_DISK_KIND": disk, "FCV_TR_FAIL_PREFIX": "diff"}
        feat = {"call": "transform_program", "errno": "exit_status_1", "transform": True, "cache": case["cache"],
                "filter": " ".join(flt) or "default", "stage": "hash_or_stat", "second_fault": False, "on_input_path": False}
        for ri in range(2):
            rc, out, err, to = C.fclones(args, sc, env_extra=env)
            errs = err.decode("utf-8", "replace")
            ctx = "`fclones %s` run %d (transform fails for %s)" % (" ".join(args), ri + 1, failing[0])
            if to or rc != 0:
                viol.append(dict(feat, kind="run_failed", run=ri, detail="%s: rc=%s %s" % (ctx, rc, errs[-300:])))
                continue
            got = set(frozenset(os.path.normpath(C.u(p)) for p in g["paths"]) for g in C.parse_json_report(out).groups)
            if got != exp:
                viol.append(dict(feat, kind="other_files_affected", run=ri,
                                 detail="%s: groups %s, expected %s" % (ctx, sorted(map(sorted, got)), sorted(map(sorted, exp)))))
            elif not warned(errs):
                viol.append(dict(feat, kind="no_warning", run=ri, detail="%s: the failing file is left out, but no warning was logged" % ctx))
    return {"violations": viol, "evaluations": 2, "nontrivial": [[case["tree"], "transform_fails", case["mode"], case["cache"], " ".join(flt)]],
            "outcome": "explored", "counters": {"transform_failure_runs": 2},
            "sample": {"tree": case["tree"], "args": args}}


def warned(stderr_text):
    """A warning about a file or directory (the one-time notice that the file system has no FIEMAP is none)."""
    return any(re.search(r"\bwarn(ing)?\b", l, re.I) and "FIEMAP" not in l for l in stderr_text.splitlines())


def evaluate_transform_unlaunchable(case):
    """The transform program cannot be started for any file. Either the run refuses to start (error exit, no report)
    or every file is left out with a warning; silently reporting 'no duplicates' is neither."""
    entries, gargs, disk, ext4 = TREES[case["tree"]]
    viol = []
    with C.Scratch() as sc:
        C.make_tree(sc.tree, entries)
        args = ["group", "-t", "1", "--min", "0", "-f", "json", "--rf-over", "0", "--transform", case["transform"], "r"]
        rc, out, err, to = C.fclones(args, sc, env_extra={"FCLONES_VERIF_DISK_KIND": disk})
        errs = err.decode("utf-8", "replace")
        feat = {"call": "transform_program", "errno": "cannot_be_launched", "transform": True, "stage": "hash_or_stat",
                "second_fault": False, "on_input_path": False, "filter": "--rf-over 0"}
        ctx = "`fclones %s`" % " ".join(args)
        if to:
            viol.append(dict(feat, kind="hang", detail=ctx))
        elif rc == 0:
            groups = C.parse_json_report(out).groups
            if groups:
                viol.append(dict(feat, kind="other_files_affected", detail="%s: reports %d groups although no file could be transformed" % (ctx, len(groups))))
            elif not warned(errs) and "error:" not in errs:
                viol.append(dict(feat, kind="no_warning", detail="%s: exit 0, empty report, and not a single warning: every file was dropped silently; stderr: %s" % (ctx, errs[-300:])))
    return {"violations": viol, "evaluations": 1, "nontrivial": [[case["tree"], "transform_unlaunchable", case["transform"]]],
            "outcome": "explored", "counters": {"transform_failure_runs": 1}, "sample": {"tree": case["tree"], "args": args}}


def evaluate(case):
    if case.get("kind") == "transform_unlaunchable":
        return evaluate_transform_unlaunchable(case)
    if case.get("kind") == "transform_fails":
        return evaluate_transform_fails(case)
    entries, gargs, disk, ext4 = TREES[case["tree"]]
    viol = []
    reached = []
    evals = 0
    if case["tree"] == "two_tmpfs":
        from . import c09
        if not c09.can_mount():
            return {"violations": [], "evaluations": 0, "nontrivial": None, "outcome": "skipped_no_mount"}
    with C.Scratch(C.EXT4 if ext4 else None) as sc:
        C.make_tree(sc.tree, entries)
        if ext4:
            # ext4 allocates blocks lazily: until write-back a fresh file has no physical extent, and the order in which
            # fclones visits files under the HDD pin (by physical location) could change between two runs on the same tree
            for dp, dns, fns in os.walk(sc.tree):
                for fn in fns:
                    fd = os.open(os.path.join(dp, fn), os.O_RDONLY)
                    try:
                        os.fsync(fd)
                    finally:
                        os.close(fd)
        flt = case.get("filter", [])
        roots = ROOTS.get(case["tree"], ["r"])
        via_stdin = bool(case.get("stdin"))
        stdin = ("\n".join(roots) + "\n").encode() if via_stdin else b""
        trargs = case.get("transform", [])
        args = ["group", "-t", "1", "--min", "0", "-f", "json"] + gargs + flt + trargs + (["--stdin"] if via_stdin else roots)
        env = {"FCLONES_VERIF_DISK_KIND": disk}
        rec = S.run_with_shim(sc, args, [sc.tree], "r", env_extra=env, stdin=stdin)
        rec2 = S.run_with_shim(sc, args, [sc.tree], "r", env_extra=env, stdin=stdin)
        d = S.same_history(rec["events"], rec2["events"])
        if d:
            raise C.MachineryError("read-side history not deterministic (%s): %s" % (case["tree"], d))
        if rec["rc"] != 0:
            raise C.MachineryError("fault-free run failed: %s" % rec["err"][-300:])
        base = C.parse_json_report(rec["out"])
        base_groups = [frozenset(C.u(p) for p in g["paths"]) for g in base.groups]
        base_attr = {frozenset(os.path.normpath(C.u(p)) for p in g["paths"]): (g["len"], g["hash"]) for g in base.groups}
        events = rec["events"]
        # file facts from the real tree
        info = {}
        for dp, dns, fns in os.walk(sc.tree, followlinks=False):
            for fn in fns:
                p = os.path.join(dp, fn)
                try:
                    st = os.stat(p)
                    info[p] = ((st.st_dev, st.st_ino), C.read_file(p))
                except OSError:
                    pass
        roots_abs = [os.path.join(sc.tree, r) for r in roots]
        # which files does a fault-free run scan at all? (ask the binary with --rf-over 0; the scan itself is C09's subject)
        rc0, out0, err0, to0 = C.fclones(["group", "-t", "1", "--min", "0", "-f", "json", "--rf-over", "0"] + gargs + roots,
                                         sc, env_extra=env)
        scanned = set(os.path.normpath(C.u(p)) for g in C.parse_json_report(out0).groups for p in g["paths"])
        ref_all = {"files": {p: {"dev": info[p][0][0], "ino": info[p][0][1], "len": len(info[p][1]), "data": info[p][1],
                                 "root": 0} for p in scanned if p in info}, "roots": roots_abs}

        def expected_for(drop):
            ref = {"files": {p: f for p, f in ref_all["files"].items() if p not in drop}, "roots": ref_all["roots"]}
            return set(e["paths"] for e in G.expected_groups(ref, {"args": ["--min", "0"] + flt}) if e["reported"])
        if expected_for(set()) != set(base_groups):
            # without any fault the groups are already not those of the files' bytes: every comparison below would be
            # against a wrong baseline. Reported as a violation (the statement's "all other files are grouped exactly
            # as if ..." presupposes a correct grouping), not as a machinery problem.
            return {"violations": [{"kind": "fault_free_run_differs_from_reference", "call": "none", "errno": "none", "stage": "none",
                                    "filter": " ".join(flt) or "default", "transform": bool(trargs), "second_fault": False,
                                    "on_input_path": False,
                                    "detail": "tree %s, `%s`: reported %s, the files' bytes give %s" % (
                                        case["tree"], " ".join(args), sorted(map(sorted, base_groups)),
                                        sorted(map(sorted, expected_for(set()))))}],
                    "evaluations": 1, "nontrivial": None, "outcome": "fault_free_wrong"}

        def affected_by(ev, errno_name=None):
            p = ev.path
            base_name = os.path.basename(p)
            if base_name in (".gitignore", ".fdignore") and not os.path.lexists(p):
                return set(), True
            if ev.call == "fiemap":
                return set(), True
            rp = os.path.realpath(p)
            if os.path.isdir(p):
                sub = set(q for q in info if q.startswith(p.rstrip("/") + "/") or q.startswith(rp.rstrip("/") + "/"))
                return sub, False
            ids = set()
            if p in info:
                ids.add(info[p][0])
            elif rp in info:
                ids.add(info[rp][0])
            if errno_name == "ENOENT" and ev.call != "read":
                # "the entry vanished" is about this directory entry: other links of the file are still there
                return set([p, rp]), False
            aff = set(q for q in info if info[q][0] in ids)
            aff.add(p)
            return aff, False

        plan = []
        walk_start = min([i for i, ev in enumerate(events) if ev.call == "opendir"] or [0])
        base_forms = (sc.tree, sc.tree + "/.", sc.tree + "/")
        first_on_root = {}
        for i, ev in enumerate(events):
            if ev.path in roots_abs and ev.path not in first_on_root:
                first_on_root[ev.path] = i

        def is_validation(k):
            # input validation: stat/realpath of the base directory before the walk starts, and - when the input paths
            # are arguments - the up-front existence check (the first call on each of them). With several roots every
            # later call on a root belongs to the walk; for the single-root trees everything before the walk starts
            # is treated as validation (a run without any input path left is allowed to fail).
            ev = events[k]
            if k < walk_start and ev.path in base_forms:
                return True
            if ev.path in roots_abs:
                if len(roots_abs) == 1:
                    return k < walk_start
                return (not via_stdin) and first_on_root[ev.path] == k
            return False
        for k, ev in enumerate(events):
            if is_validation(k):
                continue
            for e in ERRNOS:
                plan.append((k, e, None))
        # a vanished entry: fclones first opens with O_NOATIME and falls back to a plain open, so both must fail
        for k, ev in enumerate(events):
            if ev.call == "open" and not is_validation(k):
                plan.append((k, "ENOENT", k + 1))
        # a medium that goes bad: the read fails and so does whatever fclones asks next (e.g. a look whether the file
        # is still there) - the entry still exists, so it is left out WITH a warning
        for k, ev in enumerate(events):
            if ev.call in ("read", "pread64", "mmap") and not is_validation(k) and k + 1 < len(events):
                plan.append((k, "EIO", k + 1))
                if k + 2 < len(events):
                    plan.append((k, "EIO", k + 2))      # (the descriptor is closed in between)
        if case["pairs"]:
            plan = [(k1, "EIO", k2) for k1 in range(len(events)) for k2 in range(k1 + 1, len(events))
                    if not is_validation(k1) and not is_validation(k2)]
        if case.get("select") == "opens":
            # the hashing opens only (the first open of each file), at sampled positions of the visiting order
            seen_p, first_open = set(), []
            for k, ev in enumerate(events):
                if ev.call == "open" and ev.path in info and ev.path not in seen_p and not is_validation(k):
                    seen_p.add(ev.path)
                    first_open.append(k)
            n_o = len(first_open)
            pos = sorted(set(x for x in (0, 1, 31, 62, 63, 64, 65, 100, 127, 128, n_o - 2, n_o - 1) if 0 <= x < n_o)
                         if case["tier"] == "quick" else range(n_o))
            ks = set(first_open[x] for x in pos)
            plan = [(k, e, k2) for (k, e, k2) in plan if k in ks and ((e == "EACCES" and k2 is None) or (e == "ENOENT" and k2 is not None))]
            if len(plan) < 2 * len(pos):
                raise C.MachineryError("tree %s: only %d fault plans for %d sampled opens" % (case["tree"], len(plan), len(pos)))
        if case.get("only"):
            plan = [tuple(case["only"])]
        for (k, e, k2) in plan:
            evals += 1
            res = S.run_with_shim(sc, args, [sc.tree], "r", mode="fail", at=k, errno=S.ERRNO[e], at2=k2,
                                  errno2=S.ERRNO[e if e == "ENOENT" else "EIO"] if k2 is not None else None, env_extra=env, stdin=stdin)
            d = S.same_history(events, res["events"], upto=min(k, len(res["events"])))
            if d:
                raise C.MachineryError("prefix diverged before event %d (%s): %s" % (k, case["tree"], d))
            ev = events[k]
            feat = {"call": ev.call, "errno": e, "transform": bool(trargs), "on_input_path": ev.path in roots_abs, "stage": "walk" if ev.call in ("opendir", "readdir", "lstat", "readlink", "realpath") else "hash_or_stat",
                    "second_fault": k2 is not None}
            ctx = "%s event %d %r errno %s%s" % (case["tree"], k, ev, e, "" if k2 is None else (" + %s at event %d of the faulted run" % ("ENOENT" if e == "ENOENT" else "EIO", k2)))
            rc_case = dict(case, only=[k, e, k2])
            reached.append([case["tree"], " ".join(case.get("filter", []) + trargs), via_stdin, k, e, k2])
            if res["timeout"]:
                viol.append(dict(feat, kind="hang", detail=ctx, replay_case=rc_case))
                continue
            if res["rc"] != 0:
                viol.append(dict(feat, kind="run_failed", detail="%s: rc=%s %s" % (ctx, res["rc"], res["err"][-300:]), replay_case=rc_case))
                continue
            try:
                obs = C.parse_json_report(res["out"])
            except Exception as ex:
                viol.append(dict(feat, kind="unparsable_report", detail="%s: %s" % (ctx, ex), replay_case=rc_case))
                continue
            # lexical normalisation: a failing realpath() makes fclones report the same file as '<dir>/../x'
            obs_groups = [frozenset(os.path.normpath(C.u(p)) for p in g["paths"]) for g in obs.groups]
            for g in obs.groups:
                ps = [os.path.normpath(C.u(p)) for p in g["paths"]]
                twice = sorted(set(p for p in ps if ps.count(p) > 1))
                if twice:
                    viol.append(dict(feat, kind="path_listed_twice", detail="%s: %s listed more than once in its group" % (ctx, twice),
                                     replay_case=rc_case))
            # byte identity of every reported group
            for g in obs_groups:
                datas = set(info[p][1] for p in g if p in info)
                if len(datas) > 1:
                    viol.append(dict(feat, kind="non_identical_group", detail="%s: group %s" % (ctx, sorted(g)), replay_case=rc_case))
            aff, must_be_same = affected_by(ev, e)
            if k2 is not None:
                # after the first fault the history may differ from the recording: take the call that was
                # really hit by the second fault from the log of this run
                hit = [x for x in res["events"] if x.k == k2]
                if hit:
                    a2, same2 = affected_by(hit[0], e if e == "ENOENT" else "EIO")
                    aff = aff | a2
                    must_be_same = must_be_same and same2
            # both the O_NOATIME open and its fall-back failed with ENOENT: this path is gone and was never read, so it
            # may not be listed (even if another link of the same file could be read)
            must_drop = set()
            # (not when the first failing open is the one made for the extent query - that open has no fall-back, and
            # the next open of the same path is then the first of the two hashing opens, whose fall-back may succeed)
            extent_open = k + 1 < len(events) and events[k + 1].call == "fiemap" and events[k + 1].path == ev.path
            if k2 is not None and e == "ENOENT" and ev.call == "open" and not extent_open:
                hit = [x for x in res["events"] if x.k == k2]
                if hit and hit[0].call == "open" and hit[0].path == ev.path and hit[0].errno != 0:
                    must_drop = set(q for q in (ev.path, os.path.realpath(ev.path)) if q in ref_all["files"])
            aff_scanned = sorted(a for a in aff if a in ref_all["files"])
            if must_be_same:
                candidates = [frozenset()]
            elif len(aff_scanned) <= 6:
                candidates = [frozenset(c) for n in range(len(aff_scanned) + 1) for c in itertools.combinations(aff_scanned, n)]
            else:
                obs_paths = set().union(*obs_groups) if obs_groups else set()
                base_paths = set().union(*base_groups) if base_groups else set()
                candidates = [frozenset(), frozenset(aff_scanned), frozenset((base_paths - obs_paths) & set(aff_scanned)),
                              frozenset(a for a in aff_scanned if a not in obs_paths)]
            if must_drop:
                candidates = [c for c in candidates if must_drop <= c] or [frozenset(must_drop)]
            def attr_mismatch():
                out = []
                for g in obs.groups:
                    key = frozenset(os.path.normpath(C.u(p)) for p in g["paths"])
                    if key in base_attr and base_attr[key] != (g["len"], g["hash"]):
                        out.append((sorted(key), (g["len"], g["hash"]), base_attr[key]))
                return out

            accepted = None
            matching = [cand for cand in candidates if expected_for(cand) == set(obs_groups)]
            if matching:
                accepted = matching[0]
            if accepted is not None and not accepted:
                # same groups as without the fault: then also the same length and hash for each of them - unless
                # the groups are ALSO those of the tree without some affected entries (under --unique / --rf-under the
                # listed groups can coincide): a file that lost its companions early is rightly reported with the hash
                # of the stage at which it became unique
                mism = attr_mismatch()
                others = [c for c in matching if c]
                if mism and others:
                    accepted = others[0]
                else:
                    for key, got, want in mism:
                        viol.append(dict(feat, kind="group_attributes_differ", filter=" ".join(flt) or "default",
                                         detail="%s: group %s has (len, hash) %s, fault-free run %s" % (ctx, key, got, want),
                                         replay_case=rc_case))
            if accepted is None:
                viol.append(dict(feat, kind="other_files_affected", filter=" ".join(flt) or "default",
                                 detail="%s: groups %s; expected the fault-free result %s or the result of the tree without a subset of %s" % (
                                     ctx, sorted(map(sorted, obs_groups)), sorted(map(sorted, base_groups)), aff_scanned),
                                 replay_case=rc_case))
            elif accepted and e != "ENOENT" and not warned(res["err"]):
                # (also for two faults: neither EIO nor EACCES says that the entry is gone)
                viol.append(dict(feat, kind="no_warning", filter=" ".join(flt) or "default",
                                 detail="%s: result equals the tree without %s, but no warning was logged" % (ctx, sorted(accepted)),
                                 replay_case=rc_case))
    calls = sorted(set(ev.call for ev in events))
    return {"violations": viol, "evaluations": evals, "nontrivial": reached, "outcome": "explored",
            "counters": dict(("events_" + c, sum(1 for ev in events if ev.call == c)) for c in calls),
            "sample": {"tree": case["tree"], "events": len(events), "calls": calls,
                       "history_head": [repr(e).replace(sc.root, "") for e in events[:10]]}}


def finish(stats, tier):
    c = stats.get("counters", {})
    out = []
    for need in ("events_read", "events_opendir", "events_readdir", "events_stat", "events_open", "events_fiemap", "events_readlink"):
        if not c.get(need):
            out.append("no %s in any recorded history" % need)
    return out


RULE += ' Since round 11 also: every read fault together with a fault of the next / next but one call; a warning is required whenever EIO/EACCES faults leave an entry out.'


RULE += (" Since round 12 also: 200 files in one size class, faults (EACCES; ENOENT on both opens) on the hashing open of the "
         "files at positions 0, 1, 31, 62..65, 100, 127, 128 and the last two of the visiting order (thorough: every position).")
