"""C12 The hash cache never changes results (shape H: all (edit, run) histories up to a depth, cached vs uncached)."""
import itertools
import os

from .. import common as C
from .. import grouplab as G
from .. import shimlab as S

ID = "C12"
LEVEL = "model_checking"
RULE = ("tree of four 131073-byte files that share prefix and suffix (two equal, two differing in the middle) plus two "
        "small files, on ext4 (deleted inode numbers are reused at once); events: edits {set content variant (same "
        "length; also with the new mtime in the past of the old one, with mtimes before 1970, and restoring the mtime the file had when it was first cached), append, truncate, rename, delete+recreate, hard-link, create, edit a small file} - every edit advances "
        "the file's mtime by 10 ms - and runs `group --cache` with a configuration from {metro, blake3, sha512} x {no transform, "
        "transform cat} x --max-prefix-size {unset, 8192} or with a transform that fails for every file after two bytes of output, or with the length-changing transforms `head -c 1000` / `head -c 70000` (same program, different classes), or one command string with and without --in-place, or a run SIGKILLed at 1/4, 1/2, 3/4 of its call history; "
        "ALL histories (edit, run)^d after an initial cache-filling run: quick d=2 over all ordered pairs of 10 edits, each with two of the four configuration pairs + 5 edits x the (head, head2) switches + 5 x 3 edits under blake3 and sha512 (long digests); "
        "thorough d=2 over all ordered pairs of 15 edits x {all ordered pairs of 6 main configurations, each other configuration twice, 13 special configuration switches} and d=3 over 6 edits x 2 configurations (+ killed runs); (f) an edit applied WHILE a cached run (single-threaded, cold cache) is in progress - paused just before and just after every call that touches the edited file - followed by two complete cached runs; (g) two fresh tmpfs instances below the root whose k-th files have equal inode numbers, lengths and modification times: every sequence of three cached runs over {vol1, vol2, both}. A state is the "
        "tree + cache after a history prefix; a transition is one event. Invariant after every run: the report body "
        "(lengths, hashes, paths, order) of the cached run equals that of an uncached run of the same configuration on "
        "the same tree state.")
ASSUMPTIONS = ["each content change also changes mtime (>= 10 ms apart) or length, as the statement requires",
               "every history is replayed from scratch on real files (inode identity matters, states are not copied)"]

L = 131073
# (VP differs from every other variant in its FIRST byte: a file set to VP is alone after the prefix stage, the later
# stages never read it - whatever the cache holds for those stages is left as it is)
VARIANTS = {"V0": ["base", L, 1], "V1": ["flip", L, 1, 60000], "V2": ["flip", L, 1, 70000], "VP": ["flip", L, 1, 0]}
# (M*: 10000-byte files - between the prefix sizes 4096 / 8192 and 16384, so that --max-prefix-size decides whether the
# prefix stage reads them completely (one chunk of the prefix size) or their first 4096 bytes (the rest in the contents stage))
VARIANTS.update({"M0": ["base", 10000, 2], "MV": ["flip", 10000, 2, 9992]})
INITIAL = [("F1", "V0"), ("F2", "V0"), ("F3", "V1"), ("F4", "V2"), ("M1", "M0"), ("M2", "M0")]
EDITS_FULL = [
    ("set", "F2", "V1"), ("set", "F3", "V0"), ("set", "F4", "V1"), ("append", "F2"), ("truncate", "F2"),
    ("rename", "F1", "F1r"), ("recreate", "F2", "V1"), ("recreate", "F3", "V0"), ("hardlink", "F1", "F1h"),
    ("create", "F5", "V0"), ("small", "s2"),
    # the same-length rewrite again, but the new modification time lies in the PAST of the recorded one
    # (restore from a backup with preserved times, rsync -t --inplace): mtime changes, as the statement requires
    ("set_older", "F2", "V1"), ("set_older", "F3", "V0"),
    # modification times before 1970 (archives with bogus dates): distinct times, ten milliseconds apart
    ("set_pre1970", "F2", "V1"), ("set_pre1970", "F2", "V0"),
]
PRE1970 = [("set_pre1970", "F2", "V1"), ("set_pre1970", "F2", "V0")]
# new content at the same length with the modification time the file had when it was FIRST cached (an older version
# restored with its old time after something else had been there)
# (only valid AFTER another edit of the same file: otherwise the content would change under an unchanged mtime)
RESTORE_PAIRS = [(("set_older", "F2", "V1"), ("set_restore", "F2", "V2")), (("set", "F2", "V1"), ("set_restore", "F2", "V2")),
                 (("set_older", "F3", "V0"), ("set_restore", "F3", "V2")), (("append", "F2"), ("set_restore", "F2", "V2")),
                 # in between the file was unique after the prefix stage: its later chunks were not read in that run
                 (("set", "F2", "VP"), ("set_restore", "F2", "V2")), (("set", "F2", "VP"), ("set_restore", "F2", "V1")),
                 (("set_older", "F3", "VP"), ("set_restore", "F3", "V0"))]
EDITS_QUICK = [e for e in EDITS_FULL if e not in (("set", "F4", "V1"), ("set_older", "F3", "V0"), ("truncate", "F2")) and e not in PRE1970]
EDITS_D3 = [("set", "F2", "V1"), ("set", "F3", "V0"), ("rename", "F1", "F1r"), ("recreate", "F2", "V1"),
            ("recreate", "F3", "V0"), ("append", "F2"), ("set_older", "F2", "V1")]
CONFIGS = {
    "metro": ["--hash-fn", "metro"],
    "blake3": ["--hash-fn", "blake3"],
    "metro_p8k": ["--hash-fn", "metro", "--max-prefix-size", "8192"],
    "metro_p16k": ["--hash-fn", "metro", "--max-prefix-size", "16384"],
    "blake3_p8k": ["--hash-fn", "blake3", "--max-prefix-size", "8192"],
    "metro_tr": ["--hash-fn", "metro"] + ["--transform", "cat"],
    "blake3_tr": ["--hash-fn", "blake3"] + ["--transform", "cat"],
    "metro_tr_p8k": ["--hash-fn", "metro", "--max-prefix-size", "8192"] + ["--transform", "cat"],
    "blake3_tr_p8k": ["--hash-fn", "blake3", "--max-prefix-size", "8192"] + ["--transform", "cat"],
    # a transform that changes the length: files of different input length get identical output
    "metro_head": ["--hash-fn", "metro", "--transform", "head -c 1000"],
    # the same program with another argument: the four big files fall into different classes than under `head -c 1000`
    "metro_head2": ["--hash-fn", "metro", "--transform", "head -c 70000"],
    # digests longer than 128 bits
    "sha512": ["--hash-fn", "sha512"],
    # the same command string read in two ways: its standard output (nothing), or the file it rewrote (--in-place)
    "metro_ip_off": ["--hash-fn", "metro", "--transform", "fcv-tr-inplace keep $IN"],
    "metro_ip_on": ["--hash-fn", "metro", "--transform", "fcv-tr-inplace keep $IN", "--in-place"],
    # a transform that FAILS (exit status 1) after two bytes of output, for every file: a failed transform has no
    # output, cached or not; and one that fails for the files of one content only
    "metro_failpart": ["--hash-fn", "metro", "--transform", "fcv-tr failpart"],
    # a command that merely CONTAINS the text ' --in-place' as an argument of the program (the flag itself is not given)
    "metro_ip_text": ["--hash-fn", "metro", "--transform", "fcv-tr-inplace keep $IN --in-place"],
}


def prepare(tier):
    S.prepare()


def cases(tier, seed):
    out = []
    if tier == "quick":
        # every ordered pair of edits; the configurations of the two runs rotate through the four combinations
        # (thorough: the full product)
        cfgs2 = [("metro", "metro"), ("metro", "metro_head"), ("metro_head", "metro"), ("metro_head", "metro_head")]
        for i, e1 in enumerate(EDITS_QUICK):
            for j, e2 in enumerate(EDITS_QUICK):
                for k in (0, 1):
                    c1, c2 = cfgs2[(i + 2 * j + k * (1 + (i + j) % 3)) % 4]
                    h = ((e1, c1), (e2, c2))
                    out.append({"history": [list(map(list, h))[x] for x in range(2)], "kills": False})
        # long digests (256 / 512 bits): cache hits next to misses (a new copy of cached content, a re-created file)
        mix = [("create", "F5", "V0"), ("recreate", "F3", "V0"), ("set", "F3", "V0"), ("hardlink", "F1", "F1h"), ("rename", "F1", "F1r")]
        for cfg in ("blake3", "sha512"):
            for e1 in mix:
                for e2 in mix[:3]:
                    out.append({"history": [[list(e1), cfg], [list(e2), cfg]], "kills": False})
        # a rewrite that moves the time backwards, then a rewrite that restores the time the file was first cached with
        for e1, e2 in RESTORE_PAIRS:
            for cfg in ("metro", "metro_head2"):
                out.append({"history": [[list(e1), cfg], [list(e2), cfg]], "kills": False})
        # two rewrites of one file, both with modification times before 1970
        for e1 in PRE1970:
            for e2 in PRE1970:
                for cfg in ("metro", "metro_head"):
                    out.append({"history": [[list(e1), cfg], [list(e2), cfg]], "kills": False})
        # the same transform command with and without --in-place
        for c1, c2 in (("metro_ip_off", "metro_ip_on"), ("metro_ip_on", "metro_ip_off"), ("metro_ip_text", "metro_ip_on"),
                       ("metro_ip_on", "metro_ip_text")):
            for e1 in EDITS_QUICK[:2]:
                for e2 in EDITS_QUICK[:2] + EDITS_QUICK[5:6]:
                    out.append({"history": [[list(e1), c1], [list(e2), c2]], "kills": False})
        # the cache was filled under ANOTHER configuration only (other prefix size: other chunks of the same files); the
        # first run of a configuration comes after the edit
        for wcfg, c in (("metro", "metro_p8k"), ("metro_p8k", "metro")):
            for e1 in (("set", "F2", "V1"), ("set", "F3", "V0"), ("append", "F2"), ("recreate", "F2", "V1")):
                for e2 in (("small", "s2"), ("set", "F2", "V2")):
                    out.append({"history": [[list(e1), c], [list(e2), wcfg]], "kills": False, "warm": [wcfg]})
        # files whose length lies between two prefix sizes: the chunks asked for depend on --max-prefix-size
        for wcfg, c in (("metro_p16k", "metro_p8k"), ("metro_p8k", "metro_p16k"), ("metro_p16k", "metro"), ("metro", "metro_p16k")):
            for e1 in (("set", "M1", "MV"), ("set_older", "M1", "MV")):
                for e2 in (("small", "s2"), ("set", "M2", "MV")):
                    out.append({"history": [[list(e1), c], [list(e2), wcfg]], "kills": False, "warm": [wcfg]})
        # the same transform under another hash function (a new replica of cached content must still be matched)
        for c1, c2 in (("metro_tr", "blake3_tr"), ("blake3_tr", "metro_tr")):
            for e1 in (("create", "F5", "V0"), ("set", "F3", "V0")):
                for e2 in (("create", "F5", "V0"), ("recreate", "F3", "V0"), ("hardlink", "F1", "F1h")):
                    out.append({"history": [[list(e1), c1], [list(e2), c2]], "kills": False})
        # failing transforms: the same configuration again, and a switch to / from a working transform of the same program
        for c1, c2 in (("metro_failpart", "metro_failpart"), ("metro_failpart", "metro_head"), ("metro_head", "metro_failpart")):
            for e1 in (("create", "F5", "V0"), ("set", "F3", "V0"), ("rename", "F1", "F1r")):
                for e2 in (("small", "s2"), ("hardlink", "F1", "F1h")):
                    out.append({"history": [[list(e1), c1], [list(e2), c2]], "kills": False})
        # switching between two transforms that run the same program with different arguments
        few = EDITS_QUICK[:3] + EDITS_QUICK[5:7]
        for c1, c2 in (("metro_head", "metro_head2"), ("metro_head2", "metro_head"), ("metro_head2", "metro_head2")):
            for e1 in few:
                for e2 in few:
                    out.append({"history": [[list(e1), c1], [list(e2), c2]], "kills": False})
    else:
        # every ordered pair of edits under every ordered pair of the six main configurations, and every pair of
        # edits with each of the other configurations used for both runs (the special-purpose pairs follow below)
        main = ["metro", "blake3_tr", "metro_p8k", "metro_head", "sha512", "metro_ip_on"]
        for e1 in EDITS_FULL:
            for e2 in EDITS_FULL:
                for c1 in main:
                    for c2 in main:
                        out.append({"history": [[list(e1), c1], [list(e2), c2]], "kills": False})
                for c in CONFIGS:
                    if c not in main:
                        out.append({"history": [[list(e1), c], [list(e2), c]], "kills": False})
        for c1, c2 in (("metro_ip_off", "metro_ip_on"), ("metro_ip_on", "metro_ip_off"), ("metro_ip_text", "metro_ip_on"),
                       ("metro_ip_on", "metro_ip_text"), ("metro_tr", "blake3_tr"), ("blake3_tr", "metro_tr"),
                       ("metro_head", "metro_head2"), ("metro_head2", "metro_head"), ("metro_failpart", "metro_head"),
                       ("metro_head", "metro_failpart"), ("metro", "blake3"), ("blake3_p8k", "blake3"), ("metro_tr_p8k", "metro_tr")):
            for e1 in EDITS_FULL:
                for e2 in EDITS_FULL[:11]:
                    out.append({"history": [[list(e1), c1], [list(e2), c2]], "kills": False})
        for e1, e2 in RESTORE_PAIRS:
            for cfg in CONFIGS:
                out.append({"history": [[list(e1), cfg], [list(e2), cfg]], "kills": False})
        for wcfg, c in itertools.permutations(("metro_p16k", "metro_p8k", "metro", "blake3_tr_p8k"), 2):
            for e1 in (("set", "M1", "MV"), ("set_older", "M1", "MV"), ("append", "M1"), ("recreate", "M1", "MV")):
                for e2 in (("small", "s2"), ("set", "M2", "MV"), ("set", "M1", "M0")):
                    for warm in ([wcfg], [wcfg, c]):
                        out.append({"history": [[list(e1), c], [list(e2), wcfg]], "kills": False, "warm": warm})
        for wcfg in ("metro", "metro_p8k", "blake3_tr", "blake3_tr_p8k", "metro_head"):
            for c in ("metro", "metro_p8k", "blake3_tr", "blake3_tr_p8k", "metro_head2", "blake3"):
                if c == wcfg:
                    continue
                for e1 in EDITS_FULL[:11]:
                    for e2 in (("small", "s2"), ("set", "F2", "V2"), ("set", "F3", "V0")):
                        out.append({"history": [[list(e1), c], [list(e2), wcfg]], "kills": False, "warm": [wcfg]})
        steps3 = [(e, c) for e in EDITS_D3 for c in ("metro", "blake3_tr")]
        for h in itertools.product(steps3, repeat=3):
            out.append({"history": [list(x) for x in h], "kills": False})
        for h in itertools.product([(e, c) for e in EDITS_D3 for c in ("metro", "metro_tr")], repeat=2):
            for frac in (0.25, 0.5, 0.75):
                out.append({"history": [list(x) for x in h], "kills": frac})
    # (f) an edit WHILE a cached run is in progress (at every call of the run that touches the file, just before and
    # just after it), then a complete cached run: what the interrupted-by-an-edit run left in the cache may not matter
    for cfg in (("metro", "metro_tr") if tier == "quick" else ("metro", "metro_tr", "blake3_tr_p8k", "metro_head", "metro_ip_on")):
        for edit in ((("set", "F2", "V1"),) if tier == "quick" else (("set", "F2", "V1"), ("set", "F3", "V0"), ("append", "F2"))):
            out.append({"kind": "during", "cfg": cfg, "edit": list(edit)})
    # (g) two freshly made file systems below the root whose files have equal inode numbers, lengths and times
    sets = ("1", "2", "12")
    for cfg in (("metro",) if tier == "quick" else ("metro", "blake3_tr", "metro_head")):
        for h in itertools.product(sets, repeat=3):
            out.append({"kind": "twofs", "cfg": cfg, "runs": list(h)})
    # initial modification times on whole seconds (even ones: the 2 s grid of FAT), later edits 1 ms ... 1999 ms after
    # them - inside the same second / the same two seconds - and edits that land ON a whole second after a fine time
    for grid, step in ((2000, 1), (2000, 1250), (2000, 1999), (1000, 1), (1000, 999), (2000, 2000)):
        for e1 in (("set", "F2", "V1"), ("set", "F3", "V0"), ("set_older", "F2", "V1")):
            for e2 in (("set", "F3", "V0"), ("set", "F2", "V2"), ("small", "s2")):
                out.append({"history": [[list(e1), "metro"], [list(e2), "metro"]], "kills": False, "clock": [grid, step]})
    return out


CHUNK = 4


class World:
    def __init__(self, sc):
        self.sc = sc
        self.clock = 1_600_000_000_000   # ms
        self.past = 1_500_000_000_000    # ms, for edits that move a file's mtime backwards
        self.pre1970 = -300_000_000_000  # ms, about 1960
        self.first_mtime = {}            # name -> mtime (ns) the file had when the cache was first filled
        self.paths = {}
        self.reuse = 0
        self.step = 10                   # ms between two edits
        self.initial_on = 0              # ms grid of the initial files' mtimes (0: the ordinary 10 ms steps)
        self.relative = False            # edits move a file's time by `step` from the time IT had (not from the clock)
        self.assigned = {}

    def p(self, name):
        return self.sc.path("r/" + name)

    def tick(self, path):
        if self.initial_on:
            # initial files: modification times on whole (even) seconds, as archives, FAT media or `touch -d` give them
            self.clock = (self.clock // self.initial_on + 1) * self.initial_on
            t = self.clock
        elif self.relative and path in self.assigned:
            # the edit lands `step` ms after the time the file had (inside the same second / the same two seconds)
            t = self.assigned[path] + self.step
        else:
            self.clock += self.step
            t = self.clock
        self.assigned[path] = t
        os.utime(path, ns=(t * 1_000_000, t * 1_000_000))

    def tick_back(self, path):
        self.past -= 10
        os.utime(path, ns=(self.past * 1_000_000, self.past * 1_000_000))

    def tick_pre1970(self, path):
        self.pre1970 -= 10
        os.utime(path, ns=(self.pre1970 * 1_000_000, self.pre1970 * 1_000_000))

    def write(self, name, data):
        with open(self.p(name), "wb") as f:
            f.write(data)
        self.tick(self.p(name))

    def apply(self, edit):
        kind = edit[0]
        name = edit[1]
        p = self.p(name)
        if kind in ("set", "set_older", "set_pre1970", "set_restore"):
            if not os.path.exists(p):
                return False
            cur = os.path.getsize(p)
            data = C.content(VARIANTS[edit[2]])
            data = data + b"A" * (cur - len(data)) if cur > len(data) else data[:cur]
            with open(p, "r+b") as f:
                f.write(data)
            if kind == "set_restore":
                t = self.first_mtime.get(name)
                if t is None:
                    return False
                os.utime(p, ns=(t, t))
            elif kind == "set_pre1970":
                self.tick_pre1970(p)
            elif kind == "set_older":
                self.tick_back(p)
            else:
                self.tick(p)
        elif kind == "append":
            if not os.path.exists(p):
                return False
            with open(p, "ab") as f:
                f.write(b"A")
            self.tick(p)
        elif kind == "truncate":
            if not os.path.exists(p) or os.path.getsize(p) < 2:
                return False
            os.truncate(p, os.path.getsize(p) - 1)
            self.tick(p)
        elif kind == "rename":
            if not os.path.exists(p) or os.path.exists(self.p(edit[2])):
                return False
            os.rename(p, self.p(edit[2]))
        elif kind == "recreate":
            if not os.path.exists(p):
                return False
            ino = os.stat(p).st_ino
            os.unlink(p)
            with open(p, "wb") as f:
                f.write(C.content(VARIANTS[edit[2]]))
            if os.stat(p).st_ino == ino:
                self.reuse += 1
            self.tick(p)
        elif kind == "hardlink":
            if not os.path.exists(p) or os.path.exists(self.p(edit[2])):
                return False
            os.link(p, self.p(edit[2]))
        elif kind == "create":
            if os.path.exists(p):
                return False
            self.write(name, C.content(VARIANTS[edit[2]]))
        elif kind == "small":
            self.write(name, b"changed small file %d" % self.clock)
        return True


def body(report):
    return [(g["len"], g["hash"], [C.u(p) for p in g["paths"]]) for g in report.groups]


def evaluate_during(case):
    """An edit (ordinary write: new mtime) lands at event k of a cached run; afterwards cached == uncached."""
    viol = []
    states = 0
    transitions = 0
    cfg = case["cfg"]
    # (tmpfs: inode numbers grow monotonically, so the walk - which visits entries in inode order - repeats exactly
    # when the tree is rebuilt; on ext4 freed inode numbers come back in another order)
    with C.Scratch() as sc, C.Scratch() as fast:
        base_args = ["group", "--min", "0", "-f", "json", "r", "-t", "1"] + CONFIGS[cfg]

        def fresh(n):
            C.rmtree(sc.tree)
            os.makedirs(sc.path("r"))
            w = World(sc)
            for name, v in INITIAL:
                w.write(name, C.content(VARIANTS[v]))
            w.write("s1", b"small file content")
            w.write("s2", b"small file content")
            env = {"FCLONES_VERIF_DISK_KIND": "ssd", "XDG_CACHE_HOME": os.path.join(fast.root, "cache%d" % n)}
            os.makedirs(env["XDG_CACHE_HOME"])
            return w, env

        w, env = fresh(0)
        target = w.p(case["edit"][1]).decode()
        rec = S.run_with_shim(sc, base_args + ["--cache"], [sc.tree], "r", env_extra=env)
        if rec["rc"] != 0:
            raise C.MachineryError("cached run failed: %s" % rec["err"][-300:])
        ev = rec["events"]
        touch = [i for i, e in enumerate(ev) if e.path == target]
        if len(touch) < 3:
            raise C.MachineryError("the run touches %s only %d times" % (target, len(touch)))
        positions = sorted(set([i for i in touch] + [i + 1 for i in touch if i + 1 < len(ev)]))
        n = 0
        for k in positions:
            n += 1
            w, env = fresh(n)
            res = S.run_with_shim(sc, base_args + ["--cache"], [sc.tree], "r", mode="pause", at=k, env_extra=env,
                                  on_pause=lambda: w.apply(case["edit"]))
            if not res["paused"]:
                raise C.MachineryError("the cached run did not pause at event %d" % k)
            dd = S.same_history(ev, res["events"], upto=min(k, len(res["events"])))
            if dd:
                raise C.MachineryError("prefix diverged before event %d: %s" % (k, dd))
            transitions += 1
            for rep in range(2):
                rc, out, err, to = C.fclones(base_args + ["--cache"], sc, env_extra=env)
                rc2, out2, err2, to2 = C.fclones(base_args, sc, env_extra=env)
                if rc2 != 0 or to2:
                    raise C.MachineryError("uncached run failed: %s" % err2[-300:])
                states += 1
                transitions += 1
                feat = {"kind": "cached_result_differs", "last_edit": case["edit"][0], "config": cfg, "previous_edit": "none",
                        "after_killed_run": False, "edit_during_cached_run": True}
                if rc != 0 or to:
                    viol.append(dict(feat, kind="cached_run_failed", detail=err.decode("utf-8", "replace")[-300:]))
                    break
                cached, plain = body(C.parse_json_report(out)), body(C.parse_json_report(out2))
                if cached != plain:
                    viol.append(dict(feat, detail="edit %s applied at event %d (%r) of a cached run; the next cached run reports %s, an uncached run %s" % (
                        case["edit"], k, ev[k], [(l, h[:8], [os.path.basename(p) for p in ps]) for l, h, ps in cached],
                        [(l, h[:8], [os.path.basename(p) for p in ps]) for l, h, ps in plain])))
                    break
    return {"violations": viol, "states": states, "transitions": transitions, "evaluations": states,
            "nontrivial": [["during", cfg, case["edit"]]], "outcome": "edit_during_run",
            "counters": {"edits_during_a_run": len(positions)}, "sample": {"during": case}}


def evaluate_twofs(case):
    """Two fresh tmpfs instances below the root: the k-th files have equal inode numbers, and here also equal lengths and
    modification times. Cached runs over vol1, vol2 or both, in every order of three."""
    import subprocess
    from . import c09
    if not c09.can_mount():
        return {"violations": [], "states": 0, "transitions": 0, "nontrivial": None, "outcome": "skipped_no_mount"}
    viol = []
    states = 0
    cfg = case["cfg"]
    with C.Scratch() as sc:
        mounts = []
        try:
            for m in ("v1", "v2"):
                d = os.path.join(sc.tree, "r", m)
                os.makedirs(d)
                if subprocess.run(["mount", "-t", "tmpfs", "none", d]).returncode != 0:
                    return {"violations": [], "states": 0, "transitions": 0, "nontrivial": None, "outcome": "skipped_no_mount"}
                mounts.append(d)
            t = 1_600_000_000_000_000_000
            for vol, (va, vb) in (("v1", ("V0", "V0")), ("v2", ("V1", "V2"))):
                for name, v in (("pa", va), ("pb", vb), ("pc", va)):
                    p = os.path.join(sc.tree, "r", vol, name)
                    with open(p, "wb") as f:
                        f.write(C.content(VARIANTS[v]))
                    os.utime(p, ns=(t, t))
            ino = lambda x: os.stat(os.path.join(sc.tree, x)).st_ino
            same = all(ino("r/v1/" + n) == ino("r/v2/" + n) for n in ("pa", "pb", "pc")) and \
                os.stat(mounts[0]).st_dev != os.stat(mounts[1]).st_dev
            env = {"FCLONES_VERIF_DISK_KIND": "ssd"}
            hist = []
            for rs in case["runs"]:
                roots = ["r/v" + c for c in rs]
                hist.append(roots)
                args = ["group", "--min", "0", "-f", "json"] + CONFIGS[cfg] + roots
                rc, out, err, to = C.fclones(args + ["--cache"], sc, env_extra=env)
                rc2, out2, err2, to2 = C.fclones(args, sc, env_extra=env)
                if rc2 != 0 or to2 or rc != 0 or to:
                    raise C.MachineryError("run failed: %s %s" % (err[-200:], err2[-200:]))
                states += 1
                cached, plain = body(C.parse_json_report(out)), body(C.parse_json_report(out2))
                if cached != plain:
                    viol.append({"kind": "cached_result_differs", "last_edit": "none", "config": cfg, "previous_edit": "none",
                                 "after_killed_run": False, "two_file_systems_equal_inode_numbers": True,
                                 "detail": "cached runs over %s: the last one reports %s, an uncached run %s" % (
                                     hist, [(l, h[:8], [p[-5:] for p in ps]) for l, h, ps in cached],
                                     [(l, h[:8], [p[-5:] for p in ps]) for l, h, ps in plain])})
                    break
        finally:
            for d in mounts:
                subprocess.run(["umount", d])
    return {"violations": viol, "states": states, "transitions": states, "evaluations": states,
            "nontrivial": [["twofs", cfg, case["runs"]]] if same else None,
            "outcome": "twofs_same_inode" if same else "twofs_inode_differs",
            "counters": {"equal_inode_numbers_on_two_file_systems": 1 if same else 0}, "sample": {"twofs": case}}


def evaluate(case):
    if case.get("kind") == "during":
        return evaluate_during(case)
    if case.get("kind") == "twofs":
        return evaluate_twofs(case)
    viol = []
    states = 0
    transitions = 0
    reuse = 0
    with C.Scratch(C.EXT4) as sc, C.Scratch() as fast:
        # the tree lives on ext4 (inode reuse); the cache database itself can live on tmpfs (fsync is free there)
        cache_env = {"FCLONES_VERIF_DISK_KIND": "ssd", "XDG_CACHE_HOME": os.path.join(fast.root, "cache")}
        os.makedirs(cache_env["XDG_CACHE_HOME"])
        w = World(sc)
        os.makedirs(sc.path("r"))
        if case.get("clock"):
            w.initial_on, w.step = case["clock"]
            w.relative = True
        for name, v in INITIAL:
            w.write(name, C.content(VARIANTS[v]))
        w.write("s1", b"small file content")
        w.write("s2", b"small file content")
        w.initial_on = 0
        base_args = ["group", "--min", "0", "-f", "json", "r"]

        def run(cfg, cache):
            args = base_args + CONFIGS[cfg] + (["--cache"] if cache else [])
            rc, out, err, to = C.fclones(args, sc, env_extra=cache_env)
            if rc != 0 or to:
                return None, err.decode("utf-8", "replace")
            return body(C.parse_json_report(out)), err.decode("utf-8", "replace")

        # initial cache-filling runs
        for name, _ in INITIAL:
            w.first_mtime[name] = os.stat(w.p(name)).st_mtime_ns
        # the cache is warm for every configuration the history uses (+ metro, so that a foreign table is always there)
        # (cases with "warm": the cache is filled under the listed configurations only)
        for cfg in (case["warm"] if case.get("warm") else sorted(set(["metro"] + [c for _, c in case["history"]]))):
            b1, e1 = run(cfg, True)
            if b1 is None:
                raise C.MachineryError("initial cached run failed: %s" % e1[-300:])
        applied = []
        for step_i, (edit, cfg) in enumerate(case["history"]):
            ok = w.apply(edit)
            transitions += 1
            applied.append([edit, cfg, ok])
            if case["kills"] and step_i == 0:
                # an interrupted cached run before the next complete one
                args = base_args + CONFIGS[cfg] + ["--cache", "-t", "1"]
                rec = S.run_with_shim(sc, args, [sc.tree], "r", env_extra=cache_env)
                k = max(1, int(len(rec["events"]) * case["kills"]))
                S.run_with_shim(sc, args, [sc.tree], "r", mode="kill", at=k, env_extra=cache_env)
                transitions += 1
            cached, err_c = run(cfg, True)
            plain, err_p = run(cfg, False)
            transitions += 1
            states += 1
            feat = {"kind": "cached_result_differs", "last_edit": edit[0], "config": cfg,
                    "previous_edit": case["history"][step_i - 1][0][0] if step_i else "none",
                    "after_killed_run": bool(case["kills"]),
                    # (from the scenario) the time of the first cached state is back, and the run in between stopped
                    # reading the file after the prefix stage
                    "time_restored_after_run_that_read_prefix_only": bool(
                        step_i and edit[0] == "set_restore" and case["history"][step_i - 1][0][0] in ("set", "set_older")
                        and case["history"][step_i - 1][0][2] == "VP" and case["history"][step_i - 1][0][1] == edit[1])}
            if plain is None:
                raise C.MachineryError("uncached run failed: %s" % err_p[-300:])
            if cached is None:
                viol.append(dict(feat, kind="cached_run_failed", detail="history %s: %s" % (applied, err_c[-300:])))
                break
            if cached != plain:
                viol.append(dict(feat, detail="history %s: cached run reports %s, uncached run reports %s" % (
                    applied, [(l, h[:8], [os.path.basename(p) for p in ps]) for l, h, ps in cached],
                    [(l, h[:8], [os.path.basename(p) for p in ps]) for l, h, ps in plain])))
                break
        reuse = w.reuse
    return {"violations": viol, "states": states, "transitions": transitions, "evaluations": states,
            "nontrivial": [[json_key(case["history"]), case["kills"]]],
            "outcome": "inode_reused" if reuse else "no_inode_reuse",
            "counters": {"inode_reuses": reuse},
            "sample": {"history": case["history"], "kills": case["kills"]}}


def json_key(h):
    import json
    return json.dumps(h)


def finish(stats, tier):
    if not stats.get("counters", {}).get("inode_reuses"):
        return ["no history in which a deleted file's inode number was reused (ext4 scratch expected)"]
    if not stats.get("counters", {}).get("edits_during_a_run"):
        return ["no edit was applied while a cached run was in progress"]
    return []


RULE += (" Since round 12 also: two 10000-byte files (between the prefix sizes 4096 / 8192 / 16384) with runs that switch --max-prefix-size;  a rewrite that restores the first cached time after a run in which the file dropped out at the prefix stage (known finding), "
         "and histories whose cache was filled under another prefix size / hash function / transform only, so that a configuration's first run comes after the edit.")
RULE += " Since round 11 also: initial modification times on a 1 s / 2 s grid with edits 1 ... 2000 ms after the file's own time."
