"""C08 Dedupe obeys keep/drop patterns, priorities, link sets and -n (shape I, engine E2)."""
import itertools
import os
import time

from .. import common as C
from .. import dedupelab as D
from .. import grouplab as G

ID = "C08"
LEVEL = "exploration"
RULE = ("one group of k identical files (k=2..4 quick, 2..5 thorough) at different nesting depths in two roots, every "
        "partition of the paths into hard-link sets, distinct (permuted) or tied timestamps; x every single priority "
        "(12) and ordered pairs of priorities x pattern sets {none, --name, --path, --keep-name, --keep-path, "
        "--name + --keep-name, brace alternations {a,b} in --keep-name / --name / --path} x n in {unset,1,2,3} given as -n or --rf-over; inheritance cases where the settings come "
        "only from the report header ({--isolate, -H, --isolate -H, --rf-over 2, --transform}; -H from the header with --isolate on the command line; --isolate on the command line with relative root spellings; relative roots in the header with the dedupe command started from another directory, also after `group --base-dir`); isolate roots holding several files with different times: every assignment of time ranks to 4 (thorough: 5) files x every attribute priority, --isolate inherited or given to the dedupe command; observed = files named by the "
        "--dry-run script (and, for a sample, the effect of a real run); oracle = reference selection written from the "
        "statement. Non-trivial = reference drops at least one file; distinct by (structure, times, options).")
ASSUMPTIONS = ["a sub-group of several files (isolate root) is ranked by the aggregate that the accessors of FileSubGroup "
               "document: earliest creation; latest modification, access and status change; least / most nested path "
               "(violations that depend on this reading carry subgroup_attribute_aggregated=true)",
               "birth time and ctime cannot be set: they are produced by creation / chmod order with 20 ms spacing and "
               "read back with statx"]

PATHS = ["r1/a/f0", "r1/a/b/f1", "r1/c/f2", "r1x/x/y/z/f3", "r1x/f4"]
PRIOS = ["top", "bottom", "newest", "oldest", "most-recently-modified", "least-recently-modified",
         "most-recently-accessed", "least-recently-accessed", "most-recent-status-change",
         "least-recent-status-change", "most-nested", "least-nested"]
PATTERN_SETS = [
    ("none", []),
    ("name", ["--name", "f[01]"]),
    ("path", ["--path", "**/r1x/**"]),
    ("keep_name", ["--keep-name", "f0"]),
    ("keep_path", ["--keep-path", "**/a/**"]),
    ("name_keep", ["--name", "f*", "--keep-name", "f2"]),
    ("two_names", ["--name", "f0", "--name", "f3"]),
    # both kinds of keep pattern at once, each file matching at most one of them: protected by EITHER
    ("keep_name_and_path", ["--keep-name", "f3", "--keep-path", "**/a/**"]),
    ("keep_path_and_name", ["--keep-path", "**/x/**", "--keep-name", "f2"]),
    # both kinds of drop pattern at once (every file matches both or neither: the reading of a partial match is open)
    ("name_and_path", ["--name", "f[34]", "--path", "**/r1x/**"]),
    # brace alternations: the comma belongs to the pattern
    ("keep_brace", ["--keep-name", "f{0,2}"]),
    ("name_brace", ["--name", "f{1,3,4}"]),
    ("path_brace", ["--path", "**/{a,x}/**"]),
]
# the op index mixes idx with idx // period so that the cases sampled for a real run (idx % 6 == 0, idx % 4 == 0)
# still rotate through all four operations
OPS4 = ["remove", "link", "softlink", "move"]
NS = [None, ("-n", 1), ("-n", 2), ("-n", 3), ("--rf-over", 1), ("--rf-over", 2), ("--rf-over", 3)]


def prepare(tier):
    C.build_hooks()


def set_partitions(n):
    def rec(i, rgs, m):
        if i == n:
            yield list(rgs)
            return
        for b in range(m + 1):
            rgs.append(b)
            yield from rec(i + 1, rgs, max(m, b + 1))
            rgs.pop()
    return list(rec(0, [], 0))


def cases(tier, seed):
    quick = tier == "quick"
    out = []
    structures = []
    for k in range(2, (4 if quick else 5) + 1):
        for rgs in set_partitions(k):
            structures.append((k, rgs))
    pairs = [(a, b) for a in PRIOS for b in PRIOS if a != b]
    idx = 0
    for k, rgs in structures:
        prio_lists = [[p] for p in PRIOS]
        if quick:
            prio_lists += [list(pr) for i, pr in enumerate(pairs) if (i + k) % 6 == 0]
        else:
            prio_lists += [list(pr) for pr in pairs]
        prio_lists.append([])
        for pl in prio_lists:
            idx += 1
            pat = PATTERN_SETS[idx % len(PATTERN_SETS)]
            n = NS[idx % len(NS)]
            tied = idx % 5 == 0
            out.append({"k": k, "rgs": rgs, "prio": pl, "pat": pat[0], "pat_args": pat[1], "n": n, "tied": tied,
                        "inherit": None, "real": idx % 6 == 0, "op": OPS4[(idx // 6 + idx) % 4]})
        for pat in PATTERN_SETS:
            for n in NS:
                idx += 1
                pl = prio_lists[idx % len(prio_lists)]
                out.append({"k": k, "rgs": rgs, "prio": pl, "pat": pat[0], "pat_args": pat[1], "n": n, "tied": False,
                            "inherit": None, "real": idx % 6 == 0, "op": OPS4[(idx // 6 + idx) % 4]})
        for inh in ("isolate", "match_links", "rf2", "transform", "isolate_dot", "isolate_H", "isolate_cli_H", "isolate_cli_rel", "isolate_cli_abs_dots", "isolate_cli_abs_link", "isolate_other_cwd", "isolate_basedir", "isolate_hash_arg", "rf2_hash_arg"):
            for pl in ([], ["top"], ["most-nested"], ["bottom", "least-nested"]):
                idx += 1
                out.append({"k": k, "rgs": rgs, "prio": pl, "pat": "none", "pat_args": [], "n": None, "tied": False,
                            "inherit": inh, "real": idx % 4 == 0, "op": OPS4[(idx // 4 + idx) % 4]})
    # sub-groups of several files with different attributes (isolate roots): every assignment of time ranks to the
    # files x every attribute priority; r1 holds f0..f2, r1x the rest
    for k in ((4,) if quick else (4, 5)):
        for perm in itertools.permutations(range(k)):
            for pr in PRIOS[2:]:
                idx += 1
                if quick and "nested" in pr and perm != tuple(range(k)):
                    continue
                out.append({"k": k, "rgs": list(range(k)), "prio": [pr], "pat": "none", "pat_args": [], "n": None,
                            "tied": False, "inherit": "isolate" if idx % 2 else "isolate_cli", "real": False,
                            "op": ["remove", "link", "softlink", "move"][idx % 4], "perm": list(perm)})
    # three isolate roots and two link sets that chain them: r1/f0 = r1x/f1, r1x/g/f2 = r3/f3. Whatever root is retained,
    # the other two hold a link of a retained file, directly or through the middle root
    for roots3 in (["r1", "r1x", "r3"], ["r3", "r1x", "r1"], ["r1x", "r1", "r3"]):
        for pl in ([], ["top"], ["bottom"], ["newest"], ["least-nested"]):
            idx += 1
            out.append({"k": 4, "rgs": [0, 0, 1, 1], "prio": pl, "pat": "none", "pat_args": [], "n": None, "tied": False,
                        "inherit": "isolate3", "real": idx % 2 == 0, "op": OPS4[idx % 4], "roots3": roots3,
                        "paths": ["r1/a/f0", "r1x/f1", "r1x/g/f2", "r3/f3"]})
    # a large group: sort routines behave differently beyond a few dozen elements (stability of ties)
    big_paths = ["r1/x%02d/%sf" % (i, "deep/" if i % 3 else "") for i in range(40)]
    for pl in (["most-nested"], ["least-nested"], ["least-nested", "top"], ["bottom", "most-nested"], ["top"], []):
        for n in (None, ("-n", 1), ("-n", 3), ("-n", 17)):
            idx += 1
            out.append({"k": 40, "rgs": list(range(40)), "prio": pl, "pat": "none", "pat_args": [], "n": n, "tied": True,
                        "inherit": None, "real": False, "op": ["remove", "link", "softlink", "move"][idx % 4],
                        "paths": big_paths})
    return out


def build(sc, case):
    k, rgs = case["k"], case["rgs"]
    PATHS = case.get("paths") or globals()["PATHS"]
    blocks = sorted(set(rgs))
    # rank permutations for btime / mtime / atime / ctime so that they differ from path order and from each other
    m = len(blocks)
    order_b = [(i * 2 + 1) % m if m % 2 else (m - 1 - i) for i in range(m)]
    if sorted(order_b) != list(range(m)):
        order_b = list(reversed(range(m)))
    rot = lambda lst, r: lst[r % len(lst):] + lst[:r % len(lst)]
    order_m, order_a, order_c = rot(order_b, 1), rot(list(range(m)), 2), rot(order_b, 3)
    if case.get("perm"):
        order_b = order_m = order_a = order_c = list(case["perm"])
    content = b"identical content of every member"
    first = {}
    for b in sorted(blocks, key=lambda b: order_b[b]):
        i = rgs.index(b)
        p = sc.path(PATHS[i])
        os.makedirs(os.path.dirname(p), exist_ok=True)
        data = content
        if case.get("inherit") == "transform":
            data = b"aa" + bytes([65 + i]) * (3 + i)    # different files, identical first two bytes
        with open(p, "wb") as f:
            f.write(data)
        first[b] = p
        time.sleep(0.02)
    for i in range(k):
        p = sc.path(PATHS[i])
        if p != first[rgs[i]]:
            os.makedirs(os.path.dirname(p), exist_ok=True)
            os.link(first[rgs[i]], p)
    for d in ("r1", "r1x"):
        os.makedirs(sc.path(d), exist_ok=True)
    base = 1_500_000_000
    for b in blocks:
        mt = base + (0 if case["tied"] else order_m[b] * 10)
        at = base + 1000 + (0 if case["tied"] else order_a[b] * 10)
        os.utime(first[b], ns=(at * 10 ** 9, mt * 10 ** 9))
    for b in sorted(blocks, key=lambda b: order_c[b]):
        os.chmod(first[b], 0o644)
        os.chmod(first[b], 0o640)
        time.sleep(0.02)


def depth(p):
    return p.count("/")


def reference(report_paths, case, sc, opts):
    """Reference selection. report_paths: list of absolute paths (str) in report order.
    Returns (dropped set, retained set) or None if the case is outside the alphabet."""
    isolate_roots = opts.get("isolate_roots", [])
    match_links = opts.get("match_links", False)
    n = max(1, opts.get("n", 1))
    info = {}
    for p in report_paths:
        st = os.lstat(p)
        info[p] = dict(D.times(p), id=(st.st_dev, st.st_ino), depth=depth(p))
    # sub-groups
    subs = []
    if isolate_roots:
        by_root = {r: [] for r in isolate_roots}
        rest = []
        for p in report_paths:
            for r in isolate_roots:
                if p == r or p.startswith(r.rstrip("/") + "/"):
                    by_root[r].append(p)
                    break
            else:
                rest.append(p)
        subs = [by_root[r] for r in isolate_roots if by_root[r]]
    else:
        rest = list(report_paths)
    if match_links:
        subs += [[p] for p in rest]
    else:
        seen = {}
        for p in rest:
            if info[p]["id"] in seen:
                seen[info[p]["id"]].append(p)
            else:
                seen[info[p]["id"]] = [p]
                subs.append(seen[info[p]["id"]])
    # a sub-group of several files ranks by the aggregate its accessors document (FileSubGroup::created "earliest
    # creation", modified / accessed / status_changed "latest ...", min_nesting / max_nesting)
    opts["aggregated"] = any(
        ("nested" in pr and len(set(info[p]["depth"] for p in sg)) > 1) or
        (pr not in ("top", "bottom") and "nested" not in pr and len(set(info[p]["id"] for p in sg)) > 1)
        for pr in case["prio"] for sg in subs)
    keyf = {
        "newest": lambda sg: min(info[p]["btime"] for p in sg),
        "oldest": lambda sg: -min(info[p]["btime"] for p in sg),
        "most-recently-modified": lambda sg: max(info[p]["mtime"] for p in sg),
        "least-recently-modified": lambda sg: -max(info[p]["mtime"] for p in sg),
        "most-recently-accessed": lambda sg: max(info[p]["atime"] for p in sg),
        "least-recently-accessed": lambda sg: -max(info[p]["atime"] for p in sg),
        "most-recent-status-change": lambda sg: max(info[p]["ctime"] for p in sg),
        "least-recent-status-change": lambda sg: -max(info[p]["ctime"] for p in sg),
        "most-nested": lambda sg: max(info[p]["depth"] for p in sg),
        "least-nested": lambda sg: -min(info[p]["depth"] for p in sg),
    }
    # highest priority (= first to be dropped) goes last; priorities given first dominate
    # ("top" / "bottom" rank by the position in the report: a total order - whatever is given after them decides nothing)
    position = {id(sg): i for i, sg in enumerate(subs)}
    for pr in reversed(case["prio"]):
        if pr == "top":
            subs.sort(key=lambda sg: -position[id(sg)])
        elif pr == "bottom":
            subs.sort(key=lambda sg: position[id(sg)])
        else:
            subs.sort(key=keyf[pr])
    import fnmatch

    def braces(pat):
        # one level of {a,b,c}
        i, j = pat.find("{"), pat.find("}")
        if i < 0 or j < i:
            return [pat]
        return [pat[:i] + alt + pat[j + 1:] for alt in pat[i + 1:j].split(",")]

    def name_match(pat, p):
        return any(fnmatch.fnmatchcase(os.path.basename(p), x) for x in braces(pat))

    def path_match(pat, p):
        # patterns used here: **/X/** only (X possibly a brace alternation)
        return any(("/" + x.strip("*").strip("/") + "/") in p for x in braces(pat))
    pa = case["pat_args"]
    names = [pa[i + 1] for i in range(0, len(pa), 2) if pa[i] == "--name"]
    paths = [pa[i + 1] for i in range(0, len(pa), 2) if pa[i] == "--path"]
    knames = [pa[i + 1] for i in range(0, len(pa), 2) if pa[i] == "--keep-name"]
    kpaths = [pa[i + 1] for i in range(0, len(pa), 2) if pa[i] == "--keep-path"]

    def keep(p):
        return any(name_match(x, p) for x in knames) or any(path_match(x, p) for x in kpaths)

    def droppable(p):
        if not names and not paths:
            return True
        return any(name_match(x, p) for x in names) or any(path_match(x, p) for x in paths)
    retained = [sg for sg in subs if any(keep(p) for p in sg) or not all(droppable(p) for p in sg)]
    cand = [sg for sg in subs if sg not in retained]
    missing = min(len(cand), max(0, n - len(retained)))
    retained += cand[:missing]
    dropped = cand[missing:]
    if not match_links:
        # hard links of one file are kept or dropped as a whole (statement): a sub-group that contains a link of a
        # retained file is retained as well (only possible when isolate roots cut through a link set)
        # - and so on: a sub-group retained for that reason may hold a link of yet another dropped sub-group
        while True:
            kept_ids = set(info[p]["id"] for sg in retained for p in sg)
            more = [sg for sg in dropped if any(info[p]["id"] in kept_ids for p in sg)]
            if not more:
                break
            retained += more
            dropped = [sg for sg in dropped if sg not in more]
    return set(p for sg in dropped for p in sg), set(p for sg in retained for p in sg)


def evaluate(case):
    viol = []
    feat = {"option": "inherit:" + case["inherit"] if case["inherit"] else
            ("priority" if case["prio"] else "") + ("+" + case["pat"] if case["pat"] != "none" else "") +
            ("+n" if case["n"] else "") or "default"}
    with C.Scratch() as sc:
        build(sc, case)
        gargs = ["--min", "0"]
        roots = ["r1", "r1x"]
        opts = {}
        inh = case["inherit"]
        run_cwd = None
        gcwd = None
        if inh == "isolate_other_cwd":
            # roots relative in the header; the dedupe command is started from another directory
            gargs.append("--isolate")
            opts["isolate_roots"] = [sc.path("r1").decode(), sc.path("r1x").decode()]
            run_cwd = os.path.join(sc.root, "elsewhere")
            os.makedirs(run_cwd, exist_ok=True)
        elif inh == "isolate_basedir":
            # `group --base-dir TREE --isolate r1 r1x` started from elsewhere; the dedupe command started from a third place
            gargs += ["--isolate", "--base-dir", sc.tree]
            opts["isolate_roots"] = [sc.path("r1").decode(), sc.path("r1x").decode()]
            gcwd = os.path.join(sc.root, "elsewhere")
            run_cwd = os.path.join(sc.root, "third")
            os.makedirs(gcwd, exist_ok=True)
            os.makedirs(run_cwd, exist_ok=True)
        elif inh == "isolate_H":
            # both settings come from the report header
            gargs += ["--isolate", "-H"]
            opts["isolate_roots"] = [sc.path("r1").decode(), sc.path("r1x").decode()]
            opts["match_links"] = True
        elif inh == "isolate_cli_H":
            # -H from the header, the roots from the command line of the dedupe command
            gargs.append("-H")
            opts["isolate_roots"] = [sc.path("r1").decode(), sc.path("r1x").decode()]
            opts["match_links"] = True
        elif inh == "isolate_cli_rel":
            # as isolate_cli, but the roots are spelled relative to the working directory (r1, ./r1x/)
            opts["isolate_roots"] = [sc.path("r1").decode(), sc.path("r1x").decode()]
        elif inh in ("isolate_cli_abs_dots", "isolate_cli_abs_link"):
            # as isolate_cli, all roots absolute but not canonical: through '..' / through a symbolic link to the tree
            opts["isolate_roots"] = [sc.path("r1").decode(), sc.path("r1x").decode()]
        elif inh == "isolate_cli":
            # the report is made without --isolate; the dedupe command gets it with the roots
            opts["isolate_roots"] = [sc.path("r1").decode(), sc.path("r1x").decode()]
        elif inh in ("isolate", "isolate_dot"):
            gargs.append("--isolate")
            if inh == "isolate_dot":
                roots = ["./r1", "r1x/../r1x"]
            opts["isolate_roots"] = [sc.path("r1").decode(), sc.path("r1x").decode()]
        elif inh == "isolate3":
            gargs.append("--isolate")
            roots = case["roots3"]
            opts["isolate_roots"] = [sc.path(r).decode() for r in roots]
        elif inh == "isolate_hash_arg":
            # an argument that starts with '#' (a comment character of the command-line syntax the header uses)
            # stands before the settings the dedupe command inherits
            gargs += ["--exclude", "#tmp", "--isolate"]
            opts["isolate_roots"] = [sc.path("r1").decode(), sc.path("r1x").decode()]
        elif inh == "rf2_hash_arg":
            gargs += ["--exclude", "#tmp", "--exclude", "a=b+c%d", "--rf-over", "2"]
            opts["n"] = 2
        elif inh == "match_links":
            gargs.append("-H")
            opts["match_links"] = True
        elif inh == "rf2":
            gargs += ["--rf-over", "2"]
            opts["n"] = 2
        elif inh == "transform":
            gargs += G.transform_args("shrink", "pipe")
        report = D.make_report(sc, gargs, roots, fmt="json" if (case["k"] + len(case["prio"])) % 2 else "default", cwd=gcwd)
        rep = D.report_groups(report)
        if not rep.groups:
            # nothing to dedupe (e.g. all paths are hard links of one file, or isolate found one root only)
            return {"violations": [], "nontrivial": None, "outcome": "no_group"}
        if len(rep.groups) != 1:
            raise C.MachineryError("expected one group, got %d" % len(rep.groups))
        rpaths = [C.u(p) for p in rep.groups[0]["paths"]]
        dargs = list(case["pat_args"])
        if inh in ("isolate_cli", "isolate_cli_H"):
            for r in opts["isolate_roots"]:
                dargs += ["--isolate", r]
        if inh == "isolate_cli_rel":
            dargs += ["--isolate", "r1", "--isolate", "./r1x/"]
        if inh == "isolate_cli_abs_dots":
            dargs += ["--isolate", os.path.join(sc.tree, "r1x", "..", "r1"), "--isolate", os.path.join(sc.tree, "r1", "..", "r1x") + "/"]
        if inh == "isolate_cli_abs_link":
            lnk = os.path.join(sc.root, "lnk_tree")
            os.symlink(sc.tree, lnk)
            dargs += ["--isolate", os.path.join(lnk, "r1"), "--isolate", os.path.join(lnk, "r1x")]
        for pr in case["prio"]:
            dargs += ["--priority", pr]
        if case["n"]:
            dargs += [case["n"][0], str(case["n"][1])]
            opts["n"] = case["n"][1]
        ref = reference(rpaths, case, sc, opts)
        exp_drop, exp_keep = ref
        feat["subgroup_attribute_aggregated"] = opts.get("aggregated", False)
        op = case["op"]
        target = os.path.join(sc.root, "moved") if op == "move" else None
        r = D.run_dedupe(sc, op, dargs, report, dry_run=True, target=target, cwd=run_cwd)
        if r["rc"] != 0 or r["timeout"]:
            kind = "panic" if "panicked" in r["err"] else "error_exit"
            viol.append(dict(feat, kind=kind, detail="%s %s --dry-run: rc=%s %s" % (op, dargs, r["rc"], r["err"][-300:])))
            return {"violations": viol, "nontrivial": None, "outcome": kind}
        try:
            ops = D.parse_script(r["out"])
        except Exception as e:
            raise C.MachineryError("cannot parse dry-run script: %s\n%s" % (e, r["out"][:500]))
        got_drop = set(C.u(o["file"]) for o in ops)
        if got_drop != exp_drop:
            kind = "inherit_differs" if case["inherit"] else "selection_differs"
            viol.append(dict(feat, kind=kind,
                             detail="%s %s: script drops %s, reference drops %s (report order %s, structure %s, gargs %s)" % (
                                 op, dargs, sorted(x.split("/t/")[-1] for x in got_drop),
                                 sorted(x.split("/t/")[-1] for x in exp_drop), [x.split("/t/")[-1] for x in rpaths],
                                 case["rgs"], gargs)))
        for o in ops:
            if o["target"] is not None and op != "move" and C.u(o["target"]) not in exp_keep and got_drop == exp_drop:
                viol.append(dict(feat, kind="link_target_not_retained", detail="%s links %s to %s which is not retained" % (
                    op, o["file"], o["target"])))
        if case["real"] and got_drop == exp_drop:
            before = C.inventory(sc.tree)
            r1x = D.run_dedupe(sc, op, dargs, report, dry_run=False, target=target, cwd=run_cwd)
            after = C.inventory(sc.tree)
            if r1x["rc"] != 0:
                viol.append(dict(feat, kind="real_run_failed", detail="%s %s rc=%s %s" % (op, dargs, r1x["rc"], r1x["err"][-300:])))
            else:
                for p in exp_keep:
                    a, b2 = before.get(p), after.get(p)
                    if b2 is None or (a["ino"], a["sha"], a["mtime"]) != (b2["ino"], b2.get("sha"), b2["mtime"]):
                        viol.append(dict(feat, kind="retained_file_touched", op=op, detail="%s: %s -> %s" % (p, a, b2)))
                keep_inos = set(before[p]["ino"] for p in exp_keep)
                for p in exp_drop:
                    b2 = after.get(p)
                    ok = True
                    if op in ("remove", "move"):
                        ok = b2 is None
                    elif op == "link":
                        ok = b2 is not None and b2["type"] == "file" and b2["ino"] in keep_inos
                    elif op == "softlink":
                        ok = b2 is not None and b2["type"] == "sym" and os.path.realpath(p) in exp_keep
                    if not ok:
                        viol.append(dict(feat, kind="real_run_differs_from_selection", op=op,
                                         detail="%s after %s: %s" % (p, op, b2)))
    nontriv = [case["k"], case["rgs"], case["prio"], case["pat"], case["n"], case["tied"], case["inherit"], case.get("perm")] if exp_drop else None
    return {"violations": viol, "nontrivial": nontriv, "outcome": "drops" if exp_drop else "nothing_to_drop",
            "counters": {"real_runs": 1 if case["real"] else 0, ("real_" + case["op"]): 1 if case["real"] else 0, "aggregated_subgroups": 1 if opts.get("aggregated") else 0},
            "sample": {"case": {k: case[k] for k in ("k", "rgs", "prio", "pat_args", "n", "inherit", "op")},
                       "report_order": [x.split("/t/")[-1] for x in rpaths],
                       "dropped": sorted(x.split("/t/")[-1] for x in exp_drop)}}


def finish(stats, tier):
    out = []
    for o in ("drops", "nothing_to_drop"):
        if not stats["outcomes"].get(o):
            out.append("outcome never observed: " + o)
    if not stats.get("counters", {}).get("real_runs"):
        out.append("no real run sampled")
    for o in OPS4:
        if not stats.get("counters", {}).get("real_" + o):
            out.append("no real run of " + o)
    return out


RULE += " Since rounds 10-11 also: three isolate roots chained by two hard-link sets; absolute but non-canonical isolate roots on the dedupe command line ('..', through a symbolic link)."
