"""C11 The dry-run script is exactly what a real run does (shape I + S; engines E2, E1 event log, E6 seam)."""
import math
import os
import re

from .. import common as C
from .. import dedupelab as D
from .. import shimlab as S
from . import c02

ID = "C11"
LEVEL = "exploration"
RULE = ("the tree / option catalogue of C02 (structural trees with hard links, -S symlinks, --isolate; hostile file names) x "
        "op {remove, link, link --soft, dedupe (FICLONE emulated), move} x option sets, also with a stale report (a member "
        "of the first / second / third group deleted after `group`): (1) --dry-run -> script + summary; "
        "(2) real run under the shim -> inventory, summary, call log; (3) for remove / link / link --soft the tree is "
        "rebuilt at the same paths and the printed script is executed with bash. Oracle: the operations named by the "
        "script (kind, file, link target) equal the operations observed in the call log of the real run; script groups "
        "follow the report order; the summaries agree; the tree after `bash script` equals the tree after the real run "
        "(types, bytes, link targets, hard-link partition). Schedule part: for a 5-group report the script is identical "
        "for ALL 5! arrival orders at the log_script collector seam (E6), also when one or two (adjacent or not) groups yield no command because every member is protected by --keep-name, and for RAYON_NUM_THREADS in {1,2,16}. "
        "Output part: the script written with `-o FILE` (a new file, or an existing longer one) equals the one on standard output, and when FILE cannot take it (RLIMIT_FSIZE 0 / 4096 bytes, /dev/full; 3 and 150 groups) the command may not end with status 0 and an incomplete file. Non-trivial = script with at least one operation; distinct by (tree, op, options, format).")
ASSUMPTIONS = ["bash + coreutils (rm, mv, ln) are the reference for executing the script",
               "`move` and `dedupe` scripts are compared with the real run operation by operation but are not executed "
               "(the statement limits script execution to remove and link)"]


def prepare(tier):
    S.prepare()


def cases(tier, seed):
    quick = tier == "quick"
    out = []
    trees = [("s:" + k, v) for k, v in c02.structural_trees().items()]
    names = (c02.HOSTILE[:8] + c02.HOSTILE[12:14]) if quick else c02.HOSTILE   # 12, 13: glob and brace names
    trees += [("n:%d" % i, c02.hostile_tree(n)) for i, n in enumerate(names)]
    trees += [("long:%d" % len(C.b(n)) + ("" if n[0] == "L" else "mb"), c02.hostile_tree(n)) for n in c02.LONG_NAMES]
    idx = 0
    for tname, (roots, gargs, entries) in trees:
        for fmt in ("default", "json"):
            for op in ("remove", "link", "softlink", "dedupe", "move"):
                for (n, prio, pat) in c02.OPTSETS:
                    idx += 1
                    if quick and (idx % 11) and not (n is None and prio is None and pat is None and fmt == "default"):
                        continue
                    if not quick and idx % 2 and not (n is None and prio is None and pat is None):
                        continue
                    out.append({"kind": "triple", "tree": tname, "roots": roots, "gargs": gargs, "entries": entries,
                                "fmt": fmt, "op": op, "n": n, "prio": prio, "pat": pat})
                    if op == "move" and tname in ("s:three_groups", "s:one_group", "n:0") and n is None and prio is None and pat is None:
                        # the target directory already holds a file at every destination path: the real run refuses
                        out.append({"kind": "triple", "tree": tname, "roots": roots, "gargs": gargs, "entries": entries,
                                    "fmt": fmt, "op": op, "n": n, "prio": prio, "pat": pat, "prepop": True})
                    if tname in ("s:three_groups", "s:hard_links", "n:0") and n is None and prio is None and pat is None:
                        # stale report: a member of the gi-th group vanished after `group` (the group is then skipped)
                        for gi in (0, 1, 2):
                            out.append({"kind": "triple", "tree": tname, "roots": roots, "gargs": gargs, "entries": entries,
                                        "fmt": fmt, "op": op, "n": n, "prio": prio, "pat": pat, "vanish": gi})
    ngroups = 4 if quick else 5
    for op in ("remove", "link", "softlink", "move"):
        out.append({"kind": "orders", "ngroups": ngroups, "op": op})
    # groups that yield no command at all (every member protected), alone and next to each other
    for keep in ("g[12]_*", "g[01]_*", "g[23]_*", "g[02]_*", "g0_*"):
        out.append({"kind": "orders", "ngroups": ngroups, "op": "remove", "dargs": ["--keep-name", keep]})
    out.append({"kind": "orders", "ngroups": ngroups, "op": "link", "dargs": ["--keep-name", "g[12]_*"]})
    # several worker threads on a group whose droppable paths are hard links of ONE file: the real run still performs
    # every operation the dry run names (one worker is suspended after each of its steps while the others run)
    for op in ("remove", "link", "softlink", "move"):
        for j in range(4):
            out.append({"kind": "parallel_links", "op": op, "hold_step": j})
    # the script written with -o FILE: the same script as on standard output; when FILE cannot take it (size limit,
    # full device) the command must say so - a script that silently misses operations is not what a real run does
    for op in ("remove", "link", "softlink", "move"):
        for ng in (3, 150):
            for how in ("file", "prefilled", "fsize0", "fsize4096", "devfull"):
                if how == "fsize4096" and ng == 3:
                    continue
                out.append({"kind": "output", "op": op, "ngroups": ng, "how": how})
    return out


def partition(inv):
    by = {}
    for p, r in inv.items():
        if r["type"] == "file":
            by.setdefault(r["ino"], []).append(p)
    return sorted(sorted(v) for v in by.values())


def shape(inv):
    return {p: (r["type"], r.get("sha"), r.get("target")) for p, r in inv.items()}


def temp_paths(events, target):
    """Temporary siblings, recognised by what happens to them and not by their name: paths that come into being
    during the run (destination of a rename inside one directory, or an open with O_CREAT as their first appearance)
    and are unlinked again before the run ends."""
    first = {}
    unlinked = set()
    for e in events:
        if e.cls != "m":
            continue
        if e.call == "rename" and e.ret == 0 and os.path.dirname(e.path) == os.path.dirname(e.path2):
            first.setdefault(e.path, "old")
            first.setdefault(e.path2, "created")
        elif e.call == "open" and "creat" in e.info and e.ret >= 0:
            first.setdefault(e.path, "created")
        elif e.call == "unlink" and e.ret == 0:
            first.setdefault(e.path, "old")
            unlinked.add(e.path)
        else:
            for q in (e.path, e.path2):
                if q:
                    first.setdefault(q, "old")
    return set(q for q, how in first.items() if how == "created" and q in unlinked and not (target and q.startswith(target)))


def real_ops(events, tree_root, target):
    """Derives the operations of a real run from the shim's call log."""
    ops = []
    pending = {}     # temp path -> original path
    temps = temp_paths(events, target)
    for e in events:
        if e.cls != "m":
            continue
        if e.call == "rename" and e.path2 in temps:
            pending[e.path2] = {"file": e.path, "kind": None, "target": None}
        elif e.call == "link" and any(v["file"] == e.path2 for v in pending.values()) and e.ret == 0:
            [v for v in pending.values() if v["file"] == e.path2][0].update(kind="hardlink", target=e.path)
        elif e.call == "symlink" and any(v["file"] == e.path for v in pending.values()) and e.ret == 0:
            [v for v in pending.values() if v["file"] == e.path][0].update(kind="softlink", target=e.path2)
        elif e.call == "unlink" and e.path in pending and e.ret == 0:
            v = pending.pop(e.path)
            if v["kind"]:
                ops.append(v)
        elif e.call == "unlink" and e.ret == 0 and e.path not in temps:
            # plain remove, or the source of a move by copy
            mv = [o for o in ops if o["kind"] == "move_copy_pending" and o["file"] == e.path]
            if mv:
                mv[0]["kind"] = "move_copy"
            else:
                ops.append({"kind": "remove", "file": e.path, "target": None})
        elif e.call == "rename" and e.ret == 0 and target and e.path2.startswith(target):
            ops.append({"kind": "move_rename", "file": e.path, "target": e.path2})
        elif e.call == "ficlone" and e.ret == 0 and e.path not in temps:
            ops.append({"kind": "reflink", "file": e.path, "target": e.path2})
        elif e.call in ("copy_file_range", "sendfile") and target and e.path.startswith(target) and e.ret > 0:
            if not any(o["file"] == e.path2 for o in ops):
                ops.append({"kind": "move_copy_pending", "file": e.path2, "target": e.path})
    return [o for o in ops if o["kind"] != "move_copy_pending"]


def evaluate_output(case):
    import resource
    import signal
    viol = []
    n = case["ngroups"]
    feat = {"op": case["op"], "output": case["how"], "kind": "script_file_differs"}
    norm = script_key
    with C.Scratch() as sc:
        tree = []
        for g in range(n):
            for j in range(2):
                tree.append({"p": "r/d%d/g%03d_%d" % (j, g, j), "k": "file", "c": ["base", 100 + g, g + 1]})
        C.make_tree(sc.tree, tree)
        report = D.make_report(sc, [], ["r"])
        target = os.path.join(sc.root, "moved")
        ref = D.run_dedupe(sc, case["op"], [], report, dry_run=True, target=target)
        if ref["rc"] != 0 or not ref["out"].strip():
            raise C.MachineryError("reference dry run failed: %s" % ref["err"][-300:])
        outfile = "/dev/full" if case["how"] == "devfull" else os.path.join(sc.root, "script.out")
        limit = {"fsize0": 0, "fsize4096": 4096}.get(case["how"])
        if case["how"] == "prefilled":
            # the file exists already and is longer than the new script (an earlier, broader plan)
            with open(outfile, "wb") as f:
                f.write(b"rm /old/plan/file\n" * (len(ref["out"]) // 10 + 50))

        def pre():
            if limit is not None:
                signal.signal(signal.SIGXFSZ, signal.SIG_IGN)     # write() then fails with EFBIG instead of killing
                resource.setrlimit(resource.RLIMIT_FSIZE, (limit, limit))
        args = list(D.OPS[case["op"]]) + ["--dry-run", "-o", outfile] + ([target] if case["op"] == "move" else [])
        rc, out, err, to = C.run([C.FCLONES] + args, cwd=sc.tree, env=sc.env({"RAYON_NUM_THREADS": "1"}), stdin=report, preexec=pre)
        errs = err.decode("utf-8", "replace")
        written = ""
        if case["how"] != "devfull" and os.path.exists(outfile):
            written = C.read_file(outfile).decode("utf-8", "surrogateescape")
        complete = norm(written) == norm(ref["out"])
        ctx = "`%s --dry-run -o %s` (%d groups, %s)" % (case["op"], outfile, n, case["how"])
        if to:
            viol.append(dict(feat, kind="hang", detail=ctx))
        elif case["how"] in ("file", "prefilled"):
            if rc != 0 or not complete or D.parse_summary(errs) != D.parse_summary(ref["err"]):
                viol.append(dict(feat, detail="%s: rc=%s; the file holds %d bytes, the script on standard output has %d; summaries %s / %s" % (
                    ctx, rc, len(written), len(ref["out"]), D.parse_summary(errs), D.parse_summary(ref["err"]))))
        elif rc == 0 and not complete:
            viol.append(dict(feat, kind="script_lost_silently",
                             detail="%s: exit status 0 and summary %s, but the file holds %d of %d bytes of the script; stderr: %s" % (
                                 ctx, D.parse_summary(errs), len(written), len(ref["out"]), errs[-200:])))
    return {"violations": viol, "nontrivial": [case["op"], "output", n, case["how"]], "outcome": "output_" + case["how"],
            "evaluations": 2, "counters": {"unwritable_script_files": 0 if case["how"] in ("file", "prefilled") else 1},
            "sample": {"op": case["op"], "groups": n, "how": case["how"], "rc": rc}}


def evaluate_parallel_links(case):
    viol = []
    feat = {"op": case["op"], "report_format": "default", "kind": "ops_differ", "worker_threads": 4, "hard_links_in_dropped_subgroup": True}
    with C.Scratch() as sc:
        tree = [{"p": "r/a/keep", "k": "file", "c": ["base", 900, 1]}, {"p": "r/b/dup", "k": "file", "c": ["base", 900, 1]}] + \
               [{"p": "r/b/h%d" % i, "k": "hard", "to": "r/b/dup"} for i in range(1, 5)] + \
               [{"p": "r/c/g1", "k": "file", "c": ["base", 500, 2]}, {"p": "r/c/g2", "k": "file", "c": ["base", 500, 2]}]
        C.make_tree(sc.tree, tree)
        report = D.make_report(sc, [], ["r"])
        target = os.path.join(sc.root, "moved")
        dry = D.run_dedupe(sc, case["op"], [], report, dry_run=True, target=target)
        if dry["rc"] != 0:
            raise C.MachineryError("dry run failed: %s" % dry["err"][-300:])
        sops = D.parse_script(dry["out"])
        args = list(D.OPS[case["op"]]) + ([target] if case["op"] == "move" else [])
        res = S.run_with_shim(sc, args, [sc.tree, target], "m", stdin=report,
                              env_extra={"RAYON_NUM_THREADS": "4", "FCSHIM_THOLD": "/h2:%d:100:600" % case["hold_step"]})
        rops = real_ops(res["events"], sc.tree, target)
        norm = lambda ops: sorted((o["kind"].replace("move_rename", "move").replace("move_copy", "move"), C.u(o["file"]),
                                   C.u(o["target"]) if o["target"] is not None else "") for o in ops)
        so, ro = norm(sops), norm(rops)
        ctx = "`%s` with 4 workers on a group whose dropped sub-group is one file with five names (worker of h2 suspended after its step %d)" % (
            case["op"], case["hold_step"])
        if res["rc"] != 0 or "panicked" in res["err"]:
            viol.append(dict(feat, kind="real_run_failed", detail="%s: %s" % (ctx, res["err"][-300:])))
        if so != ro:
            viol.append(dict(feat, detail="%s: only in script %s; only in real run %s; warnings: %s" % (
                ctx, [x for x in so if x not in ro][:3], [x for x in ro if x not in so][:3], D.warnings(res["err"])[:2])))
        s1, s2 = D.parse_summary(dry["err"]), D.parse_summary(res["err"])
        if s1 != s2:
            viol.append(dict(feat, kind="summary_differs", detail="%s: dry run %s, real run %s; warnings %s" % (ctx, s1, s2, D.warnings(res["err"])[:2])))
    return {"violations": viol, "nontrivial": ["parallel_links", case["op"], case["hold_step"]] if sops else None,
            "outcome": "script_with_ops" if sops else "empty_script", "evaluations": 2,
            "sample": {"parallel_links": case["op"], "ops": len(sops)}}


def evaluate(case):
    if case.get("tree") in ("s:two_tmpfs", "s:cross_device", "s:bind_mount", "s:bind_mount_plain", "s:bind_mount_copy"):
        from . import c09
        if not c09.can_mount():
            return {"violations": [], "nontrivial": None, "outcome": "skipped_no_mount", "evaluations": 0}
    if case["kind"] == "parallel_links":
        return evaluate_parallel_links(case)
    if case["kind"] == "orders":
        return evaluate_orders(case)
    if case["kind"] == "output":
        return evaluate_output(case)
    viol = []
    feat = {"op": case["op"], "report_format": case["fmt"]}
    with C.Scratch() as sc:
        entries = [dict(e, to=e["to"].replace("@TREE@", sc.tree)) if e["k"] == "sym" else e for e in case["entries"]]
        target = os.path.join(sc.root, "moved")

        vanished = []

        members = []

        def rebuild():
            C.rmtree(sc.tree)
            C.rmtree(target)
            os.makedirs(sc.tree)
            C.make_tree(sc.tree, entries)
            for p in vanished:
                os.unlink(p)
            if case.get("prepop"):
                for k, p in enumerate(members):
                    tp = C.b(target) + p
                    os.makedirs(os.path.dirname(tp), exist_ok=True)
                    with open(tp, "wb") as f:
                        f.write(b"already archived %d" % k)
        rebuild()
        report = D.make_report(sc, ["--min", "0"] + case["gargs"], case["roots"], fmt=case["fmt"],
                               stdin_roots=case["tree"].endswith("stdin_overlap"))
        rep = D.report_groups(report)
        members.extend(p for g in rep.groups for p in g["paths"])
        if case.get("prepop"):
            rebuild()
            feat = dict(feat, target_prepopulated=True)
        if case.get("vanish") is not None and case["vanish"] < len(rep.groups):
            vanished.append(rep.groups[case["vanish"]]["paths"][-1])
            os.unlink(vanished[0])
        dargs = []
        if case["n"]:
            dargs += ["-n", str(case["n"])]
        if case["prio"]:
            dargs += ["--priority", case["prio"]]
        if case["pat"] == "name":
            dargs += ["--name", "[ab]*"]
        elif case["pat"] == "keep":
            dargs += ["--keep-name", "[abA]*"]
        ctx = "tree %s `%s %s` (group args %s, %s report%s)" % (case["tree"], case["op"], dargs, case["gargs"], case["fmt"],
                                                                 ", member of group %s vanished" % case["vanish"] if vanished else "")
        dry = D.run_dedupe(sc, case["op"], dargs, report, dry_run=True, target=target)
        if dry["rc"] != 0 or dry["timeout"]:
            viol.append(dict(feat, kind="dry_run_failed", detail="%s: %s" % (ctx, dry["err"][-300:])))
            return {"violations": viol, "nontrivial": None, "outcome": "dry_run_failed"}
        try:
            sops = D.parse_script(dry["out"])
        except Exception as e:
            viol.append(dict(feat, kind="script_unparsable", detail="%s: %s; script: %r" % (ctx, e, dry["out"][:400])))
            return {"violations": viol, "nontrivial": None, "outcome": "unparsable"}
        # groups in report order
        order = {}
        for gi, g in enumerate(rep.groups):
            for p in g["paths"]:
                order[p] = gi
        seq = [order.get(o["file"], -1) for o in sops]
        if -1 in seq:
            viol.append(dict(feat, kind="script_names_unknown_file", detail="%s: %r" % (ctx, [o["file"] for o in sops if o["file"] not in order][:3])))
        elif seq != sorted(seq):
            viol.append(dict(feat, kind="order_differs", detail="%s: script visits groups in order %s" % (ctx, seq)))
        # real run under the shim
        args = list(D.OPS[case["op"]]) + dargs + ([target] if case["op"] == "move" else [])
        res = S.run_with_shim(sc, args, [sc.tree, target], "m", stdin=report, emulate_clone=True,
                              env_extra={"RAYON_NUM_THREADS": "1"})
        r1 = C.inventory(sc.tree)
        if res["rc"] != 0 or "panicked" in res["err"]:
            viol.append(dict(feat, kind="real_run_failed", detail="%s: %s" % (ctx, res["err"][-300:])))
        rops = real_ops(res["events"], sc.tree, target)
        norm = lambda ops: sorted((o["kind"].replace("move_rename", "move").replace("move_copy", "move"), C.u(o["file"]),
                                   C.u(o["target"]) if o["target"] is not None else "") for o in ops)
        so, ro = norm(sops), norm(rops)
        if so != ro:
            only_s = [x for x in so if x not in ro]
            only_r = [x for x in ro if x not in so]
            viol.append(dict(feat, kind="ops_differ", detail="%s: only in script %s; only in real run %s; warnings: %s" % (
                ctx, only_s[:3], only_r[:3], D.warnings(res["err"])[:2])))
        s1, s2 = D.parse_summary(dry["err"]), D.parse_summary(res["err"])
        if s1 is None or s2 is None or s1 != s2:
            viol.append(dict(feat, kind="summary_differs", detail="%s: dry run %s, real run %s" % (ctx, s1, s2)))
        # execute the script on an identical tree
        if case["op"] in ("remove", "link", "softlink") and so == ro:
            rebuild()
            script = os.path.join(sc.root, "script.sh")
            with open(script, "wb") as f:
                f.write(dry["out"].encode("utf-8", "surrogateescape"))
            rc, out, err, to = C.run(["bash", "--norc", "--noprofile", script], cwd=sc.tree,
                                     env={"PATH": "/usr/bin:/bin", "HOME": "/fcv-home-sentinel", "LC_ALL": "C.UTF-8"})
            r2 = C.inventory(sc.tree)
            if rc != 0:
                viol.append(dict(feat, kind="script_failed_in_bash", detail="%s: rc=%s %s" % (ctx, rc, err[-300:])))
            elif shape(r1) != shape(r2) or partition(r1) != partition(r2):
                d = [p for p in sorted(set(r1) | set(r2)) if shape(r1).get(p) != shape(r2).get(p)]
                viol.append(dict(feat, kind="tree_differs", detail="%s: after the real run vs after `bash script`: %s; partitions %s vs %s" % (
                    ctx, [(p, shape(r1).get(p), shape(r2).get(p)) for p in d[:3]], partition(r1)[:3], partition(r2)[:3])))
    return {"violations": viol, "nontrivial": [case["tree"], case["op"], case["fmt"], case["n"], case["prio"], case["pat"], case.get("vanish")] if sops else None,
            "outcome": "script_with_ops" if sops else "empty_script", "evaluations": 3,
            "sample": {"tree": case["tree"], "op": case["op"], "args": dargs, "script_head": dry["out"][:300]}}


def script_key(text):
    """A script up to the (random) names of its temporary files: the parsed operations in order; text that does not
    parse as a complete script (e.g. one cut off in the middle) is kept as it is."""
    try:
        return repr([(o["kind"], o["file"], o["target"]) for o in D.parse_script(text)])
    except Exception:
        return "unparsed:" + text


def perm_count(n):
    return math.factorial(n)


def evaluate_orders(case):
    viol = []
    n = case["ngroups"]
    with C.Scratch() as sc:
        tree = []
        for g in range(n):
            for j in range(2 + g % 2):
                tree.append({"p": "r/d%d/g%d_%d" % (j, g, j), "k": "file", "c": ["base", 100 + g, g + 1]})
        C.make_tree(sc.tree, tree)
        report = D.make_report(sc, [], ["r"])
        target = os.path.join(sc.root, "moved")
        ref = None
        runs = 0
        outs = set()
        norm = script_key
        for idx in range(perm_count(n)):
            r = D.run_dedupe(sc, case["op"], case.get("dargs", []), report, dry_run=True, target=target,
                             env_extra={"FCLONES_VERIF_PERM": "log_script:%d" % idx, "RAYON_NUM_THREADS": "2"}, timeout=60)
            if r["timeout"]:
                viol.append({"kind": "hang", "op": case["op"], "seam": "log_script", "empty_groups": bool(case.get("dargs")),
                             "detail": "arrival order %d of %d groups (%s): the dry run did not finish" % (idx, n, case.get("dargs"))})
                break
            runs += 1
            if r["rc"] != 0:
                viol.append({"kind": "dry_run_failed", "op": case["op"], "detail": "order %d: %s" % (idx, r["err"][-300:])})
                break
            o = norm(r["out"]) + "|" + str(D.parse_summary(r["err"]))
            outs.add(o)
            if ref is None:
                ref = o
            elif o != ref:
                viol.append({"kind": "order_differs", "op": case["op"], "seam": "log_script", "empty_groups": bool(case.get("dargs")),
                             "detail": "arrival order %d of %d groups gives a different script/summary than order 0:\n%s\n--- vs ---\n%s" % (
                                 idx, n, o[:400], ref[:400])})
                break
        for threads in ("1", "2", "16"):
            r = D.run_dedupe(sc, case["op"], case.get("dargs", []), report, dry_run=True, target=target, env_extra={"RAYON_NUM_THREADS": threads})
            runs += 1
            o = norm(r["out"]) + "|" + str(D.parse_summary(r["err"]))
            if ref is not None and o != ref:
                viol.append({"kind": "order_differs", "op": case["op"], "seam": "threads",
                             "detail": "RAYON_NUM_THREADS=%s gives a different script" % threads})
    return {"violations": viol, "nontrivial": [[case["op"], "orders", " ".join(case.get("dargs", [])), i] for i in range(runs)], "outcome": "orders_explored",
            "evaluations": runs, "counters": {"arrival_orders": perm_count(n)},
            "sample": {"op": case["op"], "groups": n, "arrival_orders": perm_count(n)}}


def finish(stats, tier):
    out = []
    if not stats["outcomes"].get("script_with_ops"):
        out.append("no script with operations")
    if not stats.get("counters", {}).get("arrival_orders"):
        out.append("no arrival order explored")
    return out
