"""C07 `group` and `--dry-run` never modify the scanned tree (shape I + shim monitor)."""
import os

from .. import common as C
from .. import dedupelab as D
from .. import shimlab as S

ID = "C07"
LEVEL = "exploration"
RULE = ("trees {plain, with hard links and symlinks (-S), files without write permission bits, hostile file names} x group mode: no transform, or transform "
        "I/O mode {stdin/stdout pipe, $IN, $OUT, $IN $OUT, $IN/$OUT embedded in a larger argument, --in-place, $IN --no-copy, "
        "--in-place --no-copy} x program "
        "behaviour {copies input to output, ignores its input, exits 1, writes garbage to $IN (copy mode only), reads $IN "
        "without writing (in-place)} x --cache x {stdout, -o file} x format {default, json}; and remove / link / link "
        "--soft / dedupe / move with --dry-run (stdout, -o file, and -o with a path that cannot be created - missing directory, an existing directory - or written - /dev/full) x 6 option sets. Oracle: lstat+sha256 inventory incl. "
        "modification times identical before/after; private TMPDIR and HOME empty afterwards; and the shim's call log of "
        "the fclones process contains NO mutating call on a path inside the tree at any time (catches create-then-delete). "
        "Non-trivial = run that read at least one file of the tree; distinct by (tree, mode, behaviour, flags).")
ASSUMPTIONS = ["a user-supplied transform that itself writes to $IN under --no-copy is the documented exception and is not generated",
               "transform child processes are not traced by the shim; their effects are caught by the inventory comparison"]

TREES = {
    "plain": ([{"p": "r/a/f1", "k": "file", "c": ["lit", "same content"]}, {"p": "r/b/f2", "k": "file", "c": ["lit", "same content"]},
               {"p": "r/b/f3", "k": "file", "c": ["lit", "other conten"]}, {"p": "r/c/big1", "k": "file", "c": ["base", 70000, 1]},
               {"p": "r/c/big2", "k": "file", "c": ["base", 70000, 1]}], []),
    "links": ([{"p": "r/a/f1", "k": "file", "c": ["lit", "same content"]}, {"p": "r/a/h1", "k": "hard", "to": "r/a/f1"},
               {"p": "r/b/f2", "k": "file", "c": ["lit", "same content"]}, {"p": "r/b/s1", "k": "sym", "to": "../a/f1"},
               {"p": "r/b/dangling", "k": "sym", "to": "nowhere"}], ["-S"]),
    # files without any write permission bit (as root the mode does not prevent writing, but a program may look at it)
    "readonly": ([{"p": "r/a/f1", "k": "file", "c": ["lit", "same content"]}, {"p": "r/b/f2", "k": "file", "c": ["lit", "same content"]},
                  {"p": "r/b/f3", "k": "file", "c": ["lit", "other conten"]}, {"p": "r/b/h3", "k": "hard", "to": "r/b/f3"}], []),
    "hostile": ([{"p": "r/a b/x ", "k": "file", "c": ["lit", "same content"]}, {"p": "r/a b/ x", "k": "file", "c": ["lit", "same content"]},
                 {"p": "r/$IN", "k": "file", "c": ["lit", "same content"]}, {"p": "r/q'uote\"", "k": "file", "c": ["lit", "same content"]},
                 {"p": "r/new\nline", "k": "file", "c": ["lit", "same content"]},
                 # names that are not valid UTF-8 (legacy ISO-8859-1 names), with and without an extension
                 {"p": "r/caf\udce9.txt", "k": "file", "c": ["lit", "same content"]}, {"p": "r/a b/\udcff\udcfe", "k": "file", "c": ["lit", "same content"]}], []),
}
TRANSFORMS = [
    ("none", []),
    ("pipe_keep", ["--transform", "fcv-tr keep"]),
    ("pipe_ignore", ["--transform", "fcv-tr ignore"]),
    ("pipe_fail", ["--transform", "fcv-tr fail"]),
    ("in_keep", ["--transform", "fcv-tr keep $IN"]),
    ("in_fail", ["--transform", "fcv-tr fail $IN"]),
    ("out_keep", ["--transform", "fcv-tr keep - $OUT"]),
    ("out_ignore", ["--transform", "fcv-tr ignore - $OUT"]),
    ("inout_keep", ["--transform", "fcv-tr keep $IN $OUT"]),
    ("inplace_keep", ["--transform", "fcv-tr-inplace keep $IN", "--in-place"]),
    ("inplace_garbage", ["--transform", "fcv-tr-inplace garbage $IN", "--in-place"]),
    ("inplace_noop", ["--transform", "fcv-tr-inplace noop $IN", "--in-place"]),
    # $IN / $OUT embedded in a larger argument (tool --file=$IN, dd if=$IN of=$OUT)
    ("in_embedded_keep", ["--transform", "fcv-tr keep if=$IN"]),
    ("in_embedded_garbage", ["--transform", "fcv-tr-inplace garbage --file=$IN"]),
    ("inout_embedded_keep", ["--transform", "fcv-tr keep if=$IN of=$OUT"]),
    ("inplace_embedded_garbage", ["--transform", "fcv-tr-inplace garbage --file=$IN", "--in-place"]),
    # programs that rewrite or remove the file they are given as $IN (sed -i, strip, zstd --rm): harmless on the copy
    ("in_clobber", ["--transform", "fcv-tr clobber $IN"]),
    ("inout_clobber", ["--transform", "fcv-tr clobber $IN $OUT"]),
    ("inout_clobber_rm", ["--transform", "fcv-tr clobber_rm $IN $OUT"]),
    ("inout_embedded_clobber", ["--transform", "fcv-tr clobber if=$IN of=$OUT"]),
    ("in_nocopy_keep", ["--transform", "fcv-tr keep $IN", "--no-copy"]),
    ("inout_nocopy_keep", ["--transform", "fcv-tr keep $IN $OUT", "--no-copy"]),
    # a program that leaves a second file next to the (private) input it was given
    ("in_litter", ["--transform", "fcv-tr litter $IN"]),
    ("inout_litter", ["--transform", "fcv-tr litter $IN $OUT"]),
    ("inplace_nocopy_noop", ["--transform", "fcv-tr-inplace noop $IN", "--in-place", "--no-copy"]),
    # programs that cannot be launched (not found / not executable): the run ends with an error - and nothing left behind
    ("unlaunchable_missing", ["--transform", "fcv-no-such-program $IN"]),
    ("unlaunchable_missing_out", ["--transform", "./no/such/dir/prog $IN $OUT"]),
    ("unlaunchable_directory", ["--transform", "/ $IN", "--in-place"]),
]
DRY_OPTS = [[], ["-n", "2"], ["--priority", "newest"], ["--name", "f*"], ["--keep-name", "f1"], ["--priority", "top", "--no-lock"]]


def prepare(tier):
    S.prepare()


def cases(tier, seed):
    out = []
    quick = tier == "quick"
    i = 0
    for t in TREES:
        for tname, targs in TRANSFORMS:
            for cache in (False, True):
                for outmode in ("stdout", "file"):
                    for fmt in ("default", "json"):
                        i += 1
                        if quick and (i % 4) and tname not in ("inplace_nocopy_noop", "in_litter", "inout_litter", "unlaunchable_missing", "unlaunchable_missing_out", "unlaunchable_directory", "in_embedded_garbage", "inplace_embedded_garbage",
                                                                "inout_clobber", "in_clobber", "inplace_garbage"):
                            continue
                        out.append({"kind": "group", "tree": t, "transform": tname, "targs": targs, "cache": cache,
                                    "out": outmode, "fmt": fmt})
        # --cache with XDG_CACHE_HOME set to an empty string / a relative path (both are to be ignored, says the XDG
        # specification) while the command runs inside the scanned tree: the database may not appear there
        for xdg in ("", "relcache", ".cache"):
            for tname, targs in TRANSFORMS[:2]:
                out.append({"kind": "group", "tree": t, "transform": tname, "targs": targs, "cache": True, "out": "stdout",
                            "fmt": "default", "xdg": xdg})
        # a relative -o together with --base-dir: input paths are relative to the base directory, the report file is
        # relative to the working directory (which lies outside the tree)
        for tname, targs in TRANSFORMS[:2]:
            out.append({"kind": "group", "tree": t, "transform": tname, "targs": targs, "cache": False, "out": "relative_with_basedir",
                        "fmt": "default"})
        for op in D.OPS:
            for outmode in ("stdout", "file"):
                for opts in DRY_OPTS:
                    i += 1
                    if quick and i % 2:
                        continue
                    out.append({"kind": "dry", "tree": t, "op": op, "out": outmode, "opts": opts})
            # an --output that cannot be created or written: the dry run may fail, it must not turn into a real run
            for outmode in ("bad_missing_dir", "bad_is_dir", "bad_dev_full"):
                for opts in (DRY_OPTS[:1] if quick else DRY_OPTS):
                    out.append({"kind": "dry", "tree": t, "op": op, "out": outmode, "opts": opts})
    return out


def evaluate(case):
    entries, gargs = TREES[case["tree"]]
    viol = []
    with C.Scratch() as sc:
        C.make_tree(sc.tree, entries)
        if case["tree"] == "readonly":
            for e in entries:
                if e["k"] == "file":
                    os.chmod(sc.path(e["p"]), 0o444)
        outfile = os.path.join(sc.root, "out.txt")
        if case["kind"] == "dry":
            report = D.make_report(sc, ["--min", "0"] + gargs, ["r"])
        if case["out"] == "bad_missing_dir":
            outfile = os.path.join(sc.root, "no", "such", "dir", "out.txt")
        elif case["out"] == "bad_is_dir":
            outfile = os.path.join(sc.root, "outdir")
            os.makedirs(outfile)
        elif case["out"] == "bad_dev_full":
            outfile = "/dev/full"
        before = C.inventory(sc.tree)
        if case["kind"] == "group":
            args = ["group", "--min", "0"] + gargs + case["targs"] + (["--cache"] if case["cache"] else []) + \
                   ["-f", case["fmt"]] + (["-o", outfile] if case["out"] == "file" else []) + ["r"]
            feat = {"kind": "tree_modified", "mode": case["transform"], "cache": case["cache"]}
            xenv = None
            if case.get("xdg") is not None:
                xenv = {"XDG_CACHE_HOME": case["xdg"]}
                feat["xdg_cache_home"] = "empty" if case["xdg"] == "" else "relative"
            if xenv:
                args = args[:-1] + ["."]      # started inside the scanned directory
            run_cwd = os.path.join(sc.tree, "r") if xenv else None
            if case["out"] == "relative_with_basedir":
                run_cwd = os.path.join(sc.root, "elsewhere")
                os.makedirs(run_cwd, exist_ok=True)
                args = args[:-1] + ["--base-dir", os.path.join(sc.tree, "r"), "-o", "rel-report.txt", "."]
                feat["relative_output_with_base_dir"] = True
            res = S.run_with_shim(sc, args, [sc.tree], "mr", env_extra=xenv, cwd=run_cwd)
        else:
            target = os.path.join(sc.root, "moved")
            args = list(D.OPS[case["op"]]) + case["opts"] + ["--dry-run"] + (["-o", outfile] if case["out"] != "stdout" else []) + \
                   ([target] if case["op"] == "move" else [])
            feat = {"kind": "tree_modified", "mode": "dry_run", "op": case["op"]}
            res = S.run_with_shim(sc, args, [sc.tree, target], "mr", stdin=report, env_extra={"RAYON_NUM_THREADS": "1"})
            if os.path.lexists(target):
                viol.append(dict(feat, kind="dry_run_created_target", detail="%s exists after %s" % (target, args)))
        after = C.inventory(sc.tree)
        diff = C.inv_diff(before, after)
        ctx = "`fclones %s` on tree %s" % (" ".join(args), case["tree"])
        if res["timeout"]:
            viol.append(dict(feat, kind="hang", detail=ctx))
        if "panicked" in res["err"]:
            viol.append(dict(feat, kind="panic", detail="%s: %s" % (ctx, res["err"][-300:])))
        if diff:
            viol.append(dict(feat, detail="%s changed the tree: %s" % (ctx, diff[:4])))
        muts = [e for e in res["events"] if any(q == sc.tree or q.startswith(sc.tree + "/") for q in S.mutated_paths(e))]
        if muts:
            viol.append(dict(feat, kind="mutating_call_inside_tree", detail="%s issued %s" % (ctx, muts[:4])))
        left = os.listdir(os.path.join(sc.envdir, "tmp"))
        if left:
            viol.append(dict(feat, kind="temp_files_left", detail="%s left %s in TMPDIR" % (ctx, left[:5])))
        home = os.listdir(os.path.join(sc.envdir, "home"))
        if home and case.get("xdg") is None:
            viol.append(dict(feat, kind="files_in_home", detail="%s created %s in HOME" % (ctx, home[:5])))
        reads = sum(1 for e in res["events"] if e.cls == "r")
    key = [case["kind"], case["tree"], case.get("transform"), case.get("cache"), case.get("op"), case["out"],
           case.get("fmt"), case.get("opts")]
    return {"violations": viol, "nontrivial": key if reads else None, "outcome": "read_tree" if reads else "no_reads",
            "sample": {"args": args, "tree": case["tree"], "read_events": reads}}


def finish(stats, tier):
    return [] if stats["outcomes"].get("read_tree") else ["no run read the tree"]


RULE += ' Since rounds 10-11 also: transform programs that leave files next to their input, and programs that cannot be launched.'
