"""C14 A report is internally consistent in every output format (shape I, engine E2)."""
import csv
import io
import itertools
import os

from .. import common as C
from .. import grouplab as G

ID = "C14"
LEVEL = "exploration"
RULE = ("a catalogue of multi-class trees (classes of 1-4 files of several sizes over three roots - one name a string prefix of "
        "another, some groups without a copy under the first root given -, with and without hard links; one tree of names that need quoting in CSV / escaping in text and fdupes output; "
        "links; every composition of class sizes up to the bound) x filter {default, --rf-over 0/2, --unique, "
        "--rf-under 3, --isolate, --match-links, transform keep, --skip-content-hash, --skip-content-hash --isolate} x format {default, json, csv, fdupes} x {stdout, -o "
        "file} x three root orders. Oracle: header statistics recomputed from the parsed body by the documented "
        "definitions; per-group count == number of paths; sizes non-increasing; absolute paths; path order inside a "
        "group invariant under root permutation (isolate: roots contiguous in the order given); the four formats "
        "describe the same groups. Non-trivial = report with >= 1 group; distinct by (tree, filter, format, output).")
ASSUMPTIONS = ["redundant-file statistics are only checked on trees without hard links unless --match-links is given "
               "(whether a hard link is a 'redundant file' is not documented)",
               "no particular collation of paths is assumed, only that it is a function of the path set (same order for every permutation of the input roots and when the files are created in the opposite order)"]

FILTERS = [("default", []), ("rf0", ["--rf-over", "0"]), ("rf2", ["--rf-over", "2"]), ("unique", ["--unique"]),
           ("under3", ["--rf-under", "3"]), ("isolate", ["--isolate"]), ("links", ["--match-links"]),
           ("transform", G.transform_args("keep", "pipe")),
           # --skip-content-hash may merge different files (C01 excludes it), but the report must still be consistent
           ("skiphash", ["--skip-content-hash"]), ("skiphash_isolate", ["--skip-content-hash", "--isolate"])]
FORMATS = ["default", "json", "csv", "fdupes"]


def prepare(tier):
    C.build_hooks()


def catalogue(tier):
    """Trees: list of classes (size, multiplicity); files alternate between r1/a, r1x/b, r1/c/d, r3/e (three roots,
    so that some groups have no copy under the first root given)."""
    sizes = [7, 7, 4097, 70000, 1]
    mult_sets = []
    maxm = 3 if tier == "quick" else 4
    for combo in itertools.product(range(1, maxm + 1), repeat=3):
        mult_sets.append(combo)
    trees = []
    for ti, combo in enumerate(mult_sets):
        if tier == "quick" and ti % 3:
            continue
        tree = []
        k = 0
        for ci, m in enumerate(combo):
            size = sizes[ci]
            for j in range(m):
                d = ["r1/a", "r1x/b", "r1/c/d", "r3/e"][(k + ti) % 4]
                tree.append({"p": "%s/c%d_%d" % (d, ci, j), "k": "file", "c": ["base", size, ci + 1]})
                k += 1
        hard = ti % 4 == 1
        if hard:
            tree.append({"p": "r1x/b/hard0", "k": "hard", "to": tree[0]["p"]})
        tree.append({"p": "r1x/b", "k": "dir"})
        tree.append({"p": "r3/e", "k": "dir"})
        tree.append({"p": "r1/a", "k": "dir"})
        trees.append((ti, hard, tree))
    # names that need quoting / escaping in CSV, in the fdupes layout and in the text format
    hostile = ["a,b", 'q"uote', "new\nline", "semi;colon", " lead", "trail ", "tab\there", "back\\slash", "\udcffraw", "#hash"]
    tree = []
    for i, n in enumerate(hostile):
        tree.append({"p": "r1/a/%s" % n, "k": "file", "c": ["base", 50 + i, i + 1]})
        tree.append({"p": "r1x/b/%s" % n, "k": "file", "c": ["base", 50 + i, i + 1]})
        if i % 3 == 0:
            tree.append({"p": "r3/e/%s" % n, "k": "file", "c": ["base", 50 + i, i + 1]})
    # one class whose names differ only in bytes that are not valid UTF-8 (in one directory and across directories)
    for q in ("r1/a/inv\udcfe", "r1/a/inv\udcff", "r1x/b/inv\udcfe", "r1/a/inv\udcfd"):
        tree.append({"p": q, "k": "file", "c": ["base", 77, 99]})
    tree.append({"p": "r3/e", "k": "dir"})
    trees.append((1000, False, tree))
    return trees


def cases(tier, seed):
    out = []
    for ti, hard, tree in catalogue(tier):
        for fname, fargs in FILTERS:
            for out_mode in ("stdout", "file"):
                out.append({"tree": tree, "filter": fname, "fargs": fargs, "out": out_mode, "hard": hard, "ti": ti})
                # the colour-related environment variables of terminals and CI systems: a report that goes to a pipe or a
                # file is the same text whatever they say
                if fname == FILTERS[0][0] and ti % 5 == 0:
                    for env in ({"CLICOLOR_FORCE": "1"}, {"NO_COLOR": "1"}, {"CLICOLOR_FORCE": "1", "TERM": "xterm-256color"},
                                {"CLICOLOR": "0", "TERM": "dumb"}, {"FORCE_COLOR": "1", "COLORTERM": "truecolor"}):
                        out.append({"tree": tree, "filter": fname, "fargs": fargs, "out": out_mode, "hard": hard, "ti": ti, "env": env})
    for out_mode in ("stdout", "file"):
        out.append({"link_root": True, "out": out_mode, "orders": [["LNK", "B", "C"], ["B", "LNK", "C"], ["C", "B", "LNK"]]})
        out.append({"nested_roots": True, "out": out_mode,
                    "orders": [["photos/best", "photos", "backup"], ["photos", "photos/best", "backup"],
                               ["backup", "photos/best", "photos"], ["photos/best", "backup", "photos"]]})
    return out


def parse_output(fmt, data):
    """-> list of {"len","hash","paths","count"} (len/hash None for fdupes) and header stats dict or None."""
    if fmt == "json":
        r = C.parse_json_report(data)
        st = r.header.get("stats")
        return r.groups, st
    if fmt == "default":
        r = C.parse_text_report(data)
        hs = C.text_header_stats(r.header)
        st = None
        if hs:
            st = {"group_count": hs["total"][2], "total_file_count": hs["total"][1], "total_file_size": hs["total"][0],
                  "redundant_file_count": hs["redundant"][1], "redundant_file_size": hs["redundant"][0],
                  "missing_file_count": hs["missing"][1], "missing_file_size": hs["missing"][0]}
        return r.groups, st
    if fmt == "csv":
        rows = list(csv.reader(io.StringIO(data.decode("utf-8"))))
        assert rows[0][:4] == ["size", "hash", "count", "files"], rows[0]
        groups = []
        for row in rows[1:]:
            groups.append({"len": int(row[0]), "hash": row[1], "count": int(row[2]),
                           "paths": [C.stfu8_decode(x) for x in row[3:]]})
        return groups, None
    if fmt == "fdupes":
        groups = []
        cur = []
        for ln in data.decode("utf-8").split("\n"):
            if ln == "":
                if cur:
                    groups.append({"len": None, "hash": None, "count": None, "paths": cur})
                    cur = []
            else:
                cur.append(C.stfu8_decode(ln))
        if cur:
            groups.append({"len": None, "hash": None, "count": None, "paths": cur})
        return groups, None
    raise ValueError(fmt)


ROOTS = ["r1", "r1x", "r3"]
ORDERS = [("r1", "r1x", "r3"), ("r3", "r1", "r1x"), ("r1x", "r3", "r1")]


def root_of(p):
    for r in ROOTS:
        if ("/" + r + "/").encode() in p:
            return r
    return None


def evaluate_link_root(case):
    """--isolate -S where one input path is a symbolic link to a file (a root of its own): the link is listed at the
    position of its root, and the header counts the files outside the first root as redundant."""
    viol = []
    feat = {"filter": "isolate_symlink_root", "output": case["out"]}
    with C.Scratch() as sc:
        body = ["base", 5000, 3]
        C.make_tree(sc.tree, [{"p": "T/t", "k": "file", "c": body}, {"p": "LNK", "k": "sym", "to": "T/t"},
                              {"p": "B/b1", "k": "file", "c": body}, {"p": "B/b2", "k": "file", "c": body},
                              {"p": "C/c1", "k": "file", "c": body}])
        results = {}
        for order in case["orders"]:
            for fmt in FORMATS:
                args = ["group", "--min", "0", "--isolate", "-S"] + order + ["-f", fmt]
                outfile = None
                if case["out"] == "file":
                    outfile = os.path.join(sc.root, "report.out")
                    args += ["-o", outfile]
                rc, out, err, to = C.fclones(args, sc)
                if to or rc != 0:
                    viol.append(dict(feat, kind="crash", format=fmt, detail="rc=%s %s; %s" % (rc, err[-300:], args)))
                    continue
                if outfile:
                    out = C.read_file(outfile)
                try:
                    groups, st = parse_output(fmt, out)
                except Exception as e:
                    viol.append(dict(feat, kind="unparsable", format=fmt, detail="%s: %r" % (e, out[:300])))
                    continue
                if len(groups) != 1:
                    viol.append(dict(feat, kind="count_mismatch", format=fmt, detail="%d groups for %s" % (len(groups), order)))
                    continue
                got = [C.u(p)[len(sc.tree) + 1:] for p in groups[0]["paths"]]
                want = []
                for r in order:
                    want += {"LNK": ["LNK"], "B": ["B/b1", "B/b2"], "C": ["C/c1"]}[r]
                if got != want:
                    viol.append(dict(feat, kind="isolate_roots_not_contiguous_in_order", format=fmt,
                                     detail="roots %s: paths %s, expected %s" % (order, got, want)))
                if st is not None:
                    first = {"LNK": 1, "B": 2, "C": 1}[order[0]]
                    if st.get("redundant_file_count") != 4 - first:
                        viol.append(dict(feat, kind="stat_mismatch", field="redundant_file_count", format=fmt,
                                         detail="roots %s: header says %s redundant files, %d lie outside the first root" % (
                                             order, st.get("redundant_file_count"), 4 - first)))
    return {"violations": viol, "nontrivial": ["isolate_symlink_root", case["out"]], "outcome": ["groups"], "evaluations": len(case["orders"]) * 4,
            "sample": {"filter": "isolate_symlink_root", "out": case["out"]}}


def evaluate_nested_roots(case):
    """--isolate with one root inside another: a file belongs to the first root (in the order given) that contains it,
    whatever file was looked at before it; roots in the order given, header statistics to match."""
    viol = []
    feat = {"filter": "isolate_nested_roots", "output": case["out"]}
    big, small = ["base", 9000, 3], ["base", 4000, 4]
    files = {"photos/best/b1": big, "photos/best/b2": big, "photos/p1": big, "photos/zz/p2": big, "backup/k1": big,
             "photos/best/c1": small, "photos/a/q1": small, "backup/c2": small}
    with C.Scratch() as sc:
        C.make_tree(sc.tree, [{"p": p, "k": "file", "c": c} for p, c in files.items()])
        for order in case["orders"]:
            def root_of(p):
                for i, r in enumerate(order):
                    if p == r or p.startswith(r + "/"):
                        return i
                return len(order)
            want = []
            for content in (big, small):
                ps = sorted((p for p, c in files.items() if c == content), key=lambda p: (root_of(p), p))
                want.append(ps)
            # redundant: everything outside the first root that holds a member (replication 1)
            red = sum(len([p for p in ps if root_of(p) != root_of(ps[0])]) for ps in want)
            for fmt in FORMATS:
                args = ["group", "--min", "0", "--isolate"] + order + ["-f", fmt]
                outfile = None
                if case["out"] == "file":
                    outfile = os.path.join(sc.root, "report.out")
                    args += ["-o", outfile]
                rc, out, err, to = C.fclones(args, sc)
                if to or rc != 0:
                    viol.append(dict(feat, kind="crash", format=fmt, detail="rc=%s %s; %s" % (rc, err[-300:], args)))
                    continue
                if outfile:
                    out = C.read_file(outfile)
                try:
                    groups, st = parse_output(fmt, out)
                except Exception as e:
                    viol.append(dict(feat, kind="unparsable", format=fmt, detail="%s: %r" % (e, out[:300])))
                    continue
                got = [[C.u(p)[len(sc.tree) + 1:] for p in g["paths"]] for g in groups]
                # (the order of the paths of ONE root is fclones' own; that of the roots is the order given)
                ok = len(got) == len(want) and all(sorted(g) == sorted(w) and [root_of(p) for p in g] == [root_of(p) for p in w]
                                                   for g, w in zip(got, want))
                if not ok:
                    viol.append(dict(feat, kind="isolate_roots_not_contiguous_in_order", format=fmt,
                                     detail="roots %s: groups %s, expected (up to the order inside one root) %s" % (order, got, want)))
                if st is not None and st.get("redundant_file_count") != red:
                    viol.append(dict(feat, kind="stat_mismatch", field="redundant_file_count", format=fmt,
                                     detail="roots %s: header says %s redundant files, %d lie outside the first root of their group" % (
                                         order, st.get("redundant_file_count"), red)))
    return {"violations": viol, "nontrivial": ["isolate_nested_roots", case["out"]], "outcome": ["groups"],
            "evaluations": len(case["orders"]) * 4, "sample": {"filter": "isolate_nested_roots", "out": case["out"]}}


def evaluate(case):
    if case.get("link_root"):
        return evaluate_link_root(case)
    if case.get("nested_roots"):
        return evaluate_nested_roots(case)
    viol = []
    fname, fargs = case["filter"], case["fargs"]
    feat = {"filter": fname, "output": case["out"]}
    if case.get("env"):
        feat["environment"] = " ".join("%s=%s" % kv for kv in sorted(case["env"].items()))
    outcomes = []
    with C.Scratch() as sc:
        C.make_tree(sc.tree, case["tree"])
        results = {}
        for order in ORDERS:
            for fmt in FORMATS:
                args = ["group", "--min", "0"] + fargs + list(order) + ["-f", fmt]
                outfile = None
                if case["out"] == "file":
                    outfile = os.path.join(sc.root, "report.out")
                    # the file exists already and is longer than any report of this tree (an older report, here: the
                    # previous format's output padded to 64 KiB) - the new report replaces it completely
                    with open(outfile, "ab") as f:
                        f.write(b"# stale line of an earlier report\n" * 2000)
                    args += ["-o", outfile]
                rc, out, err, to = C.fclones(args, sc, env_extra=case.get("env"))
                if to or rc != 0:
                    viol.append(dict(feat, kind="crash", format=fmt, detail="rc=%s %s; %s" % (rc, err[-300:], args)))
                    continue
                if outfile:
                    if out.strip():
                        viol.append(dict(feat, kind="stdout_not_empty_with_o", format=fmt, detail=repr(out[:200])))
                    with open(outfile, "rb") as f:
                        out = f.read()
                try:
                    groups, st = parse_output(fmt, out)
                except Exception as e:
                    viol.append(dict(feat, kind="unparsable", format=fmt, detail="%s: %r" % (e, out[:300])))
                    continue
                results[(tuple(order), fmt)] = (groups, st)
        ref = G.scan_reference(sc.tree, {"roots": ROOTS, "args": fargs})
        root_abs = dict(zip(ROOTS, ref["roots"]))
        # the same tree created in the opposite order (other inode numbers, other directory order): the order of the
        # paths inside a group depends on the set of paths only
        first = results.get((tuple(ORDERS[0]), "json"))
        if first and case["out"] == "stdout":
            C.rmtree(sc.tree)
            os.makedirs(sc.tree)
            ents = case["tree"]
            C.make_tree(sc.tree, [e for e in reversed(ents) if e["k"] != "hard"] + [e for e in ents if e["k"] == "hard"])
            rc, out, err, to = C.fclones(["group", "--min", "0"] + fargs + list(ORDERS[0]) + ["-f", "json"], sc)
            if rc == 0 and not to:
                again = {frozenset(g["paths"]): g["paths"] for g in parse_output("json", out)[0]}
                for g in first[0]:
                    other = again.get(frozenset(g["paths"]))
                    if other is not None and other != g["paths"]:
                        viol.append(dict(feat, kind="path_order_depends_on_creation_order",
                                         detail="files created in the opposite order: %s instead of %s" % (
                                             [os.path.basename(C.u(x)) for x in other], [os.path.basename(C.u(x)) for x in g["paths"]])))
    files = ref["files"]

    def fkey(p):
        f = files.get(C.u(p))
        return (f["dev"], f["ino"]) if f else None

    for (order, fmt), (groups, st) in results.items():
        f2 = dict(feat, format=fmt)
        # per-group count, absolute paths, ordering by size
        prev = None
        for g in groups:
            if g.get("count") is not None and g["count"] != len(g["paths"]):
                viol.append(dict(f2, kind="count_mismatch", detail="group header says %s, %d paths listed" % (g["count"], len(g["paths"]))))
            for p in g["paths"]:
                if not p.startswith(b"/"):
                    viol.append(dict(f2, kind="relative_path", detail=repr(p)))
            if g["len"] is not None:
                if prev is not None and g["len"] > prev:
                    viol.append(dict(f2, kind="order", detail="group of %d bytes after group of %d bytes" % (g["len"], prev)))
                prev = g["len"]
        outcomes.append("groups" if groups else "empty")
        # statistics
        if st is not None:
            exp = {"group_count": len(groups), "total_file_count": sum(len(g["paths"]) for g in groups),
                   "total_file_size": sum(g["len"] * len(g["paths"]) for g in groups)}
            isolate = fname.endswith("isolate")
            under = {"unique": 2, "under3": 3}.get(fname)
            rf = {"rf0": 0, "rf2": 2}.get(fname, 1)
            if fname == "transform":
                rf = None   # which factor applies with --transform is C03/C06's subject
            if under is None and rf is not None and (not case["hard"] or fname == "links"):
                red = 0
                red_size = 0
                for g in groups:
                    if isolate:
                        roots = [root_abs[r] for r in order]
                        per_root = [sum(1 for p in g["paths"] if C.u(p).startswith(r + "/")) for r in roots]
                        per_root = [x for x in per_root if x]
                        n = sum(per_root[max(rf, 1):])
                    else:
                        n = max(0, len(g["paths"]) - max(rf, 1))
                    red += n
                    red_size += n * g["len"]
                exp["redundant_file_count"] = red
                exp["redundant_file_size"] = red_size
                exp["missing_file_count"] = 0
                exp["missing_file_size"] = 0
            if under is not None:
                miss = 0
                miss_size = 0
                for g in groups:
                    cnt = len(set(fkey(p) for p in g["paths"]))
                    n = max(0, under - cnt)
                    miss += n
                    miss_size += n * g["len"]
                exp["missing_file_count"] = miss
                exp["missing_file_size"] = miss_size
                exp["redundant_file_count"] = 0
                exp["redundant_file_size"] = 0
            for k, v in exp.items():
                if st.get(k) != v:
                    viol.append(dict(f2, kind="stat_mismatch", field=k,
                                     detail="header %s=%s, body gives %s; order %s" % (k, st.get(k), v, order)))
    # formats agree (same order of roots)
    for order in ORDERS:
        base = results.get((order, "json"))
        if not base:
            continue
        bl = [(g["len"], g["hash"], g["paths"]) for g in base[0]]
        for fmt in ("default", "csv", "fdupes"):
            r = results.get((order, fmt))
            if not r:
                continue
            if fmt == "fdupes":
                ok = [g["paths"] for g in r[0]] == [x[2] for x in bl]
            else:
                ok = [(g["len"], g["hash"], g["paths"]) for g in r[0]] == bl
            if not ok:
                viol.append(dict(feat, kind="formats_disagree", format=fmt, detail="json %s vs %s %s" % (
                    bl[:2], fmt, [(g["len"], g["hash"], g["paths"]) for g in r[0]][:2])))
    # permutation invariance of the order inside groups
    a = results.get((ORDERS[0], "json"))
    for other in ORDERS[1:]:
        b = results.get((other, "json"))
        if not (a and b):
            continue
        ga = {frozenset(g["paths"]): g["paths"] for g in a[0]}
        gb = {frozenset(g["paths"]): g["paths"] for g in b[0]}
        if set(ga) != set(gb):
            viol.append(dict(feat, kind="groups_depend_on_root_order", detail="%s vs %s" % (sorted(map(sorted, ga)), sorted(map(sorted, gb)))))
            continue
        for k in ga:
            if fname.endswith("isolate"):
                for paths, roots in ((ga[k], ORDERS[0]), (gb[k], other)):
                    seq = [roots.index(root_of(p)) for p in paths]
                    if seq != sorted(seq):
                        viol.append(dict(feat, kind="isolate_roots_not_contiguous_in_order",
                                         detail="roots %s paths %s" % (list(roots), paths)))
                ina = [[p for p in ga[k] if root_of(p) == r] for r in ROOTS]
                inb = [[p for p in gb[k] if root_of(p) == r] for r in ROOTS]
                if ina != inb:
                    viol.append(dict(feat, kind="path_order_depends_on_root_order", detail="%s vs %s" % (ga[k], gb[k])))
            elif ga[k] != gb[k]:
                viol.append(dict(feat, kind="path_order_depends_on_root_order", detail="%s vs %s" % (ga[k], gb[k])))
    nontriv = [case["ti"], fname, case["out"]] if any(g for (g, s) in results.values()) else None
    return {"violations": viol, "nontrivial": nontriv, "outcome": outcomes, "evaluations": 12,
            "sample": {"filter": fname, "out": case["out"], "tree": [e["p"] for e in case["tree"]]}}


def finish(stats, tier):
    out = []
    for o in ("groups", "empty"):
        if not stats["outcomes"].get(o):
            out.append("outcome never observed: " + o)
    return out


RULE += ' Since rounds 10-11 also: an input path that is a symbolic link to a file under --isolate -S; nested isolate roots in four orders.'


RULE += " Since round 12 also: every fifth tree under the colour-related environment variables CLICOLOR_FORCE, NO_COLOR, CLICOLOR, FORCE_COLOR, TERM, COLORTERM (output to a pipe and to a file)."
