"""C01 Reported groups contain only files with byte-identical content (shape I, engine E2 + disk-kind pin)."""
from .. import common as C
from .. import grouplab as G

ID = "C01"
LEVEL = "exploration"
RULE = ("trees {A=base(L), B=base(L) with one byte flipped at offset o, C=base(L)} and {A1=A2=base(L), B1=B2=flipped} (two classes of equal length that survive the early stages) (+ hard-link and symlink/-S variants; + two tmpfs mounts under one root whose files have equal inode numbers) "
        "for L in {0,1,4095,4096,4097,16383,16384,16385,65535,65536,65537,131073} and o in "
        "{0,4095,4096,16383,16384,L-4097,L-4096,L/2,L-1}; x hash function x pinned disk kind (x cache, prefix/suffix "
        "sizes, -t 1 in thorough); prefix/suffix windows: --max-prefix-size in {4096, 8192, 16384} x --max-suffix-size around L - prefix (touching, overlapping, leaving a gap) with the differing byte on either side of each boundary; transform sub-space: keep/shrink/double/prefix programs x 5 I/O modes on trees that "
        "differ before / only beyond the input length; transforms that exit with status 1 after no / two bytes of output, run once and twice with --cache (no group may be reported); cache histories: warm `--cache` run, then one member of a group gets the other class's bytes at the same length with its mtime moved forward / backward by seconds or by 1 ms, or by a rename over it / a swap of two files, then a second cached run; two cached runs with transforms that run the same program with other arguments. Oracle: every reported group is re-read and compared byte for "
        "byte (transform output for --transform), file_len == that length. Non-trivial = a run that reported at least "
        "one group of >= 2 paths; distinct by (tree, configuration).")
ASSUMPTIONS = ["--skip-content-hash is never passed (excluded by the statement)",
               "disk kind is pinned through the cfg(fclones_verif) hook; the real detection code is not exercised",
               "64 MiB files for the HDD suffix stage are used in the thorough tier only"]

Z = [0, 1, 4095, 4096, 4097, 16383, 16384, 16385, 65535, 65536, 65537, 131073]
HASHES = ["metro", "xxhash", "blake3", "sha256", "sha512", "sha3-256", "sha3-512"]
DISKS = ["ssd", "hdd", "unknown"]


def offsets(L):
    c = [0, 4095, 4096, 16383, 16384, L - 4097, L - 4096, L // 2, L - 1]
    return sorted(set(o for o in c if 0 <= o < L))


def prepare(tier):
    C.build_hooks()


def tree_plain(L, o):
    t = [{"p": "r/d1/A", "k": "file", "c": ["base", L, 0]}, {"p": "r/d2/C", "k": "file", "c": ["base", L, 0]}]
    if o is not None:
        t.insert(1, {"p": "r/d1/B", "k": "file", "c": ["flip", L, 0, o]})
    return t


def tree_two(L, o):
    """Two classes of equal length, two members each: both survive the early stages as separate groups,
    so a stage that loses the distinction merges them."""
    return [{"p": "r/d1/A1", "k": "file", "c": ["base", L, 0]}, {"p": "r/d2/A2", "k": "file", "c": ["base", L, 0]},
            {"p": "r/d1/B1", "k": "file", "c": ["flip", L, 0, o]}, {"p": "r/d2/B2", "k": "file", "c": ["flip", L, 0, o]}]


def tree_hard(L, o):
    return tree_plain(L, o) + [{"p": "r/d2/A2", "k": "hard", "to": "r/d1/A"}, {"p": "r/d3/B2", "k": "hard", "to": "r/d1/B"}]


def tree_sym(L, o):
    return tree_plain(L, o) + [{"p": "r/d2/SA", "k": "sym", "to": "../d1/A"}, {"p": "r/d3/SB", "k": "sym", "to": "../d1/B"}]


def stage_for(L, o, disk, prefix, suffix):
    """Which stage is the first that can see the differing byte (from the documented thresholds)."""
    if o is None:
        return "none"
    maxp = prefix if prefix is not None else (4096 if disk == "ssd" else 16384)
    covered = maxp if L <= maxp else 4096
    if o < covered:
        return "prefix"
    thr = 65536 if disk == "ssd" else 64 * 1024 * 1024
    suf = suffix if suffix is not None else (4096 if disk == "ssd" else 16384)
    if L >= thr and o >= L - suf:
        return "suffix"
    return "content"


def mk(tree, kind, L, o, hash_fn, disk, extra=(), env=None, repeat=1, tr=None):
    args = ["--min", "0", "--hash-fn", hash_fn] + list(extra)
    if kind == "hard":
        args.append("-H")
    if kind == "sym":
        args += ["-S", "-H"]
    e = {"FCLONES_VERIF_DISK_KIND": disk}
    if env:
        e.update(env)
    return {"tree": tree, "roots": ["r"], "args": args, "env": e, "repeat": repeat,
            "meta": {"kind": kind, "L": L, "o": o, "hash": hash_fn, "disk": disk, "extra": list(extra), "tr": tr}}


def cases(tier, seed):
    out = []
    quick = tier == "quick"
    hashes = ["metro", "blake3"] if quick else HASHES
    disks = ["ssd", "unknown"] if quick else DISKS
    for L in Z:
        offs = offsets(L) or [None]
        for o in offs:
            for h in hashes:
                for d in disks:
                    out.append(mk(tree_plain(L, o), "plain", L, o, h, d))
                    if o is not None:
                        out.append(mk(tree_two(L, o), "two", L, o, h, d))
            if o is not None:
                # the replication filters: whatever is searched for (under-replicated, unique, everything), a reported
                # group holds identical files only - also when its replica count already decides the verdict
                for fi, flt in enumerate((["--rf-under", "3"], ["--rf-under", "4"], ["--unique"], ["--rf-over", "0"], ["--rf-over", "2"],
                                          ["--rf-under", "2", "--isolate"])):
                    for d in (disks if not quick else [disks[(fi + len(out)) % len(disks)]]):
                        out.append(mk(tree_plain(L, o), "plain", L, o, "metro", d, flt))
                        out.append(mk(tree_two(L, o), "two", L, o, "metro", d, flt))
                for d in disks:
                    # prefix and/or suffix covering the whole file
                    for extra in (["--max-prefix-size", "1048576"], ["--max-suffix-size", "1048576"],
                                  ["--max-prefix-size", "1048576", "--max-suffix-size", "1048576"]):
                        out.append(mk(tree_two(L, o), "two", L, o, "metro", d, extra))
            if not quick:
                for d in DISKS:
                    for px in (None, 1, 4096, 8192, 1 << 20):
                        for sx in (None, 1, 4096, 1 << 20):
                            if px is None and sx is None:
                                continue
                            extra = []
                            if px is not None:
                                extra += ["--max-prefix-size", str(px)]
                            if sx is not None:
                                extra += ["--max-suffix-size", str(sx)]
                            out.append(mk(tree_plain(L, o), "plain", L, o, "metro", d, extra))
                            if o is not None:
                                out.append(mk(tree_two(L, o), "two", L, o, "metro", d, extra))
                for h in ("metro", "sha256"):
                    out.append(mk(tree_plain(L, o), "plain", L, o, h, "ssd", ["--cache"], repeat=2))
                    out.append(mk(tree_plain(L, o), "plain", L, o, h, "ssd", ["-t", "1"]))
        if L > 0:
            o = offsets(L)[-1]
            for d in disks:
                out.append(mk(tree_hard(L, o), "hard", L, o, "metro", d))
                out.append(mk(tree_sym(L, o), "sym", L, o, "metro", d))
    # ---- two file systems under one root, equal inode numbers (needs `mount -t tmpfs`; skipped with a note otherwise)
    for L, o in ((10, 9), (5000, 4999), (70000, 35000)):
        for d in disks:
            out.append(mk([], "twofs", L, o, "metro", d))
        out.append(mk([], "twofs", L, o, "metro", "ssd", G.transform_args("keep", "pipe") + ["--rf-over", "1"], tr=["keep", "pipe"]))
        if not quick:
            out.append(mk([], "twofs", L, o, "blake3", "ssd", ["--cache"], repeat=1))
    # ---- cache histories: a warm cache, then a same-length rewrite of one member of a reported group
    for L, o in ((10, 9), (5000, 4999), (70000, 35000)) if quick else ((10, 9), (4096, 0), (5000, 4999), (16384, 8000), (70000, 35000), (70000, 69999), (131073, 65536)):
        for edit in CACHE_EDITS:
            for h, d, extra in ((("metro", "ssd", []), ("blake3", "unknown", [])) if quick else
                                [(h, d, x) for h in ("metro", "blake3", "sha256") for d in DISKS
                                 for x in ([], G.transform_args("keep", "pipe") + ["--rf-over", "1"])]):
                out.append(mk(tree_two(L, o), "cachehist", L, o, h, d, ["--cache"] + extra, tr=["keep", "pipe"] if extra else None))
                out[-1]["meta"]["edit"] = edit
    # ---- transform sub-space
    ops = ["keep", "shrink", "double", "prefix"]
    modes = ["pipe", "in", "out", "inout", "inplace"]
    for L in ((2, 10) if quick else (2, 10, 4097, 70000)):
        for o in sorted(set([0, L - 1])):
            for op in ops:
                for mode in (modes if (quick and L == 10) or not quick else ["pipe"]):
                    extra = G.transform_args(op, mode) + ["--rf-over", "1"]
                    out.append(mk(tree_plain(L, o), "plain", L, o, "metro", "ssd", extra, tr=[op, mode]))
                    if not quick:
                        out.append(mk(tree_plain(L, o), "plain", L, o, "blake3", "unknown", extra + ["--cache"],
                                      repeat=2, tr=[op, mode]))
    # prefix / suffix windows: explicit sizes chosen so that prefix + suffix touch, overlap by one byte or leave a gap
    # of one byte, with the differing byte on either side of every boundary (files at / above the SSD suffix threshold)
    for L in ((65536, 70000) if quick else (65536, 65537, 70000, 131073)):
        for px in (4096, 8192, 16384):
            for sx in sorted(set([L - px, L - px - 1, L - px + 1, L - 4096, L - 4097, L - 8192])):
                if sx <= 0:
                    continue
                for o in sorted(set([4095, 4096, px - 1, px, L - sx - 1, L - sx, L - sx + 1])):
                    if not (0 <= o < L):
                        continue
                    for d in (("ssd",) if quick else ("ssd", "unknown")):
                        out.append(mk(tree_two(L, o), "two", L, o, "metro", d,
                                      ["--max-prefix-size", str(px), "--max-suffix-size", str(sx)]))
    # two cached runs whose transforms run the same program with other arguments (shrink: first two bytes, equal for
    # A and B when the difference lies later; keep: everything)
    for L, o in ((10, 9), (5000, 4999)):
        for first, second in (("shrink", "keep"), ("keep", "shrink"), ("shrink", "double")):
            c = mk(tree_two(L, o), "cacheswitch", L, o, "metro", "ssd", ["--cache", "--rf-over", "0"], tr=[second, "pipe"])
            c["meta"]["first"] = first
            out.append(c)
    # transforms that FAIL (exit status 1) after no / partial output, twice with the cache: a file whose transform
    # failed has no transform output and may not be reported in any group - in the first run or from the cache
    for L, o in ((10, 9), (5000, 4999)):
        for op in FAIL_OPS:
            for mode in ("pipe", "in"):
                for cache in ([], ["--cache"]):
                    extra = G.transform_args(op, mode) + ["--rf-over", "0"] + cache
                    out.append(mk(tree_two(L, o), "two", L, o, "metro", "ssd", extra, tr=[op, mode], repeat=2 if cache else 1))
    # equal base names in different directories under a $IN transform and pools of several threads: the private
    # copies handed to the transform program may not get in each other's way (the program reads its input only after the programs of all four files have started)
    for L in (10, 5000):
        tree = [{"p": "r/d%d/same.name" % i, "k": "file", "c": (["base", L, 0] if i % 2 == 0 else ["flip", L, 0, L - 1])} for i in range(4)]
        for mode in ("in", "inout"):
            for threads in (["-t", "8"], ["-t", "default:4,4"]):
                extra = G.transform_args("barrierkeep", mode) + ["--rf-over", "0"] + threads
                c = mk(tree, "plain", L, L - 1, "metro", "ssd", extra, tr=["barrierkeep", mode], repeat=2,
                       env={"FCV_TR_BARRIER_DIR": "@TMPDIR@/../fcv-barrier", "FCV_TR_BARRIER_N": "4"})
                c["meta"]["same_base_names"] = True
                out.append(c)
    # a file is rewritten (same length, new mtime) WHILE a cached run works on it - the run is stopped before and after
    # every call that touches the file; the groups of the NEXT cached run are then compared byte for byte
    for L, o in ((70000, 35000), (5000, 4999)):
        for extra in ([], G.transform_args("keep", "pipe") + ["--rf-over", "1"]):
            c = mk(tree_two(L, o), "cacherace", L, o, "metro", "ssd", ["--cache", "-t", "1"] + extra, tr=["keep", "pipe"] if extra else None)
            out.append(c)
    # files of DIFFERENT length whose shorter members are exactly a prefix of the longer ones (4096 / 16384 bytes: the
    # lengths of the partial prefix hashes): a group never mixes lengths, whatever arrives first
    for short, long_ in ((4096, 20000), (4096, 70000), (16384, 70000), (1, 4097)):
        # (the verification build hands hashing results to the collectors in path order: both name orders are used)
        tree = [{"p": "r/d1/a_short", "k": "file", "c": ["base", short, 5]}, {"p": "r/d1/b_short", "k": "file", "c": ["base", short, 5]},
                {"p": "r/d1/c_long", "k": "file", "c": ["base", long_, 5]}, {"p": "r/d1/d_long", "k": "file", "c": ["base", long_, 5]}]
        tree2 = [{"p": "r/d1/c_short", "k": "file", "c": ["base", short, 5]}, {"p": "r/d1/d_short", "k": "file", "c": ["base", short, 5]},
                 {"p": "r/d1/a_long", "k": "file", "c": ["base", long_, 5]}, {"p": "r/d1/b_long", "k": "file", "c": ["base", long_, 5]}]
        for order in (tree, list(reversed(tree)), tree2):
            for h, d, extra in (("metro", "unknown", ["-t", "1"]), ("metro", "hdd", []), ("metro", "ssd", ["--max-prefix-size", "16384", "-t", "1"]),
                                ("blake3", "ssd", ["--max-prefix-size", "65536"]), ("metro", "ssd", [])):
                c = mk(order, "two", long_, 0, h, d, extra)
                c["meta"]["mixed_lengths"] = [short, long_]
                out.append(c)
    # sparse files: data, a hole, data again (and a trailing hole): two classes that differ only BEHIND the first hole
    MiB = 1 << 20
    for layout, segsA, segsB, L in (
            ("data_hole_data", [[0, ["base", 8192, 1]], [512 * 1024, ["base", 65536, 2]]],
             [[0, ["base", 8192, 1]], [512 * 1024, ["flip", 65536, 2, 100]]], MiB),
            ("hole_first", [[65536, ["base", 4096, 1]], [300000, ["base", 5000, 2]]],
             [[65536, ["base", 4096, 1]], [300000, ["flip", 5000, 2, 4999]]], 400000),
            ("trailing_hole", [[0, ["base", 70000, 1]]], [[0, ["flip", 70000, 1, 69999]]], MiB)):
        tree = [{"p": "r/d1/A1", "k": "sparse", "len": L, "segs": segsA}, {"p": "r/d2/A2", "k": "sparse", "len": L, "segs": segsA},
                {"p": "r/d1/B1", "k": "sparse", "len": L, "segs": segsB}, {"p": "r/d2/B2", "k": "sparse", "len": L, "segs": segsB}]
        for h, d, extra in (("metro", "ssd", []), ("blake3", "unknown", []), ("metro", "ssd", ["--max-prefix-size", "65536", "--max-suffix-size", "65536"]),
                            ("metro", "ssd", ["-t", "1"]), ("metro", "ssd", ["--cache"])):
            c = mk(tree, "two", L, 0, h, d, extra, repeat=2 if "--cache" in extra else 1)
            c["meta"]["sparse"] = layout
            out.append(c)
    # length-changing transforms on trees with hard links (one hash per file id is shared by all its names)
    for L in (10, 5000):
        for op in ("shrink", "double", "prefix"):
            for ml in ([], ["-H"]):
                extra = G.transform_args(op, "pipe") + ["--rf-over", "0"] + ml
                c = mk(tree_hard(L, L - 1), "plain", L, L - 1, "metro", "ssd", extra, tr=[op, "pipe"])
                c["meta"]["hard_links"] = True
                out.append(c)
    if not quick:
        # HDD/unknown suffix stage needs >= 64 MiB
        big = 64 * 1024 * 1024
        for d in ("hdd", "unknown"):
            for o in (big - 1, big - 16384, big // 2):
                c = mk(tree_plain(big, o), "plain", big, o, "metro", d)
                c["timeout"] = 600
                out.append(c)
    # two devices of different kinds in one run: lengths around the per-kind prefix lengths (4 KiB / 16 KiB), the
    # differing byte beyond the shorter prefix; the files of interest on either device
    for L, o in ((4097, 4096), (10000, 7000), (16383, 16382), (16384, 5000), (20000, 16500), (70000, 69999)):
        for disk, disk2 in (("ssd", "hdd"), ("hdd", "ssd"), ("ssd", "unknown"), ("unknown", "ssd")):
            for where in ("r1", "r2"):
                if quick and (L + len(disk) + len(where)) % 2 and L not in (10000, 4097):
                    continue
                other = "r2" if where == "r1" else "r1"
                tree = [{"p": "%s/d1/A1" % where, "k": "file", "c": ["base", L, 0]}, {"p": "%s/d2/A2" % where, "k": "file", "c": ["base", L, 0]},
                        {"p": "%s/d1/B1" % where, "k": "file", "c": ["flip", L, 0, o]},
                        {"p": "%s/x1" % other, "k": "file", "c": ["base", 3000, 5]}, {"p": "%s/x2" % other, "k": "file", "c": ["base", 3000, 5]}]
                c = mk(tree, "mixed", L, o, "metro", disk)
                c["roots"] = ["r1", "r2"]
                c["meta"].update(disk2=disk2, where=where)
                out.append(c)
    return out


FAIL_OPS = ("failempty", "failpart")
CACHE_EDITS = ["rewrite_newer", "rewrite_older", "rewrite_plus_1ms", "rewrite_minus_1ms", "replace_by_rename",
               "swap_by_rename"]


def evaluate_cacherace(case):
    import os
    from .. import shimlab as S
    meta = case["meta"]
    viol = []
    positions = []
    with C.Scratch() as sc, C.Scratch() as fast:
        args = ["group"] + case["args"] + ["r", "-f", "json"]
        names = [e["p"] for e in case["tree"]]
        a2, b1 = sc.path(names[1]).decode(), names[2]

        def fresh(n):
            C.rmtree(sc.tree)
            os.makedirs(sc.tree)
            C.make_tree(sc.tree, case["tree"])
            env = dict(case["env"], XDG_CACHE_HOME=os.path.join(fast.root, "cache%d" % n))
            os.makedirs(env["XDG_CACHE_HOME"])
            return env

        def rewrite():
            data = C.read_file(sc.path(b1))
            with open(a2, "r+b") as f:
                f.write(data)
            t = 1_700_000_000_000_000_000
            os.utime(a2, ns=(t, t))
        env = fresh(0)
        rec = S.run_with_shim(sc, args, [sc.tree], "r", env_extra=env)
        if rec["rc"] != 0:
            raise C.MachineryError("cached run failed: %s" % rec["err"][-300:])
        ev = rec["events"]
        touch = [i for i, e in enumerate(ev) if e.path == a2]
        positions = sorted(set(touch + [i + 1 for i in touch if i + 1 < len(ev)]))
        for n, k in enumerate(positions):
            env = fresh(n + 1)
            res = S.run_with_shim(sc, args, [sc.tree], "r", mode="pause", at=k, env_extra=env, on_pause=rewrite)
            if not res["paused"]:
                raise C.MachineryError("the cached run did not pause at event %d" % k)
            rc, out, err, to = C.fclones(args, sc, env_extra=env)
            if rc != 0 or to:
                continue
            for g in C.parse_json_report(out).groups:
                datas = [(C.u(p), C.read_file(p)) for p in g["paths"]]
                bad = [p for p, d in datas if d != datas[0][1]]
                if bad:
                    viol.append({"kind": "non_identical_group", "transform": "keep" if meta["tr"] else "none",
                                 "differs_only_beyond_input_len": False,
                                 "first_stage_that_could_see_the_difference": "stale_cache_after_rewrite_during_a_run",
                                 "detail": "%s rewritten (same length, new mtime) at event %d (%r) of a cached run; the next cached run groups "
                                           "files with different bytes: %s vs %s; args %s" % (a2, k, ev[k], datas[0][0], bad[0], case["args"])})
    return {"violations": viol, "nontrivial": ["cacherace", meta["L"], meta["o"], meta["extra"]], "outcome": "cacherace",
            "counters": {"cache_history_cases": 1, "rewrites_during_a_cached_run": len(positions)},
            "sample": {"kind": "cacherace", "meta": meta, "positions": len(positions)}}


def evaluate_cachehist(case):
    """`group --cache` on {A1=A2, B1=B2}; then A1 gets B's bytes (same length) with its modification time moved
    forward / backward (by seconds or by one millisecond), or by renaming another file over it; `group --cache` again.
    Every group of the second report is re-read and compared byte for byte."""
    import os
    meta = case["meta"]
    viol = []
    with C.Scratch() as sc:
        C.make_tree(sc.tree, case["tree"])
        a1, a2, b1, b2 = (os.path.join(sc.tree, e["p"]) for e in case["tree"])
        t0 = 1_700_000_000_000_000_000
        for i, p in enumerate((a1, a2, b1, b2)):
            os.utime(p, ns=(t0, t0 + i * 1_000_000_000))
        run1 = C.fclones(["group"] + case["args"] + ["r", "-f", "json"], sc, env_extra=case["env"])
        edit = meta["edit"]
        bdata = C.read_file(b1)
        old = os.stat(a1).st_mtime_ns
        if edit.startswith("rewrite"):
            with open(a1, "r+b") as f:
                f.write(bdata)
            new = {"rewrite_newer": old + 5_000_000_000, "rewrite_older": old - 3600_000_000_000,
                   "rewrite_plus_1ms": old + 1_000_000, "rewrite_minus_1ms": old - 1_000_000}[edit]
            os.utime(a1, ns=(new, new))
        elif edit == "replace_by_rename":
            tmp = a1 + ".new"
            with open(tmp, "wb") as f:
                f.write(bdata)
            os.utime(tmp, ns=(old - 1_000_000_000, old - 1_000_000_000))
            os.rename(tmp, a1)
        elif edit == "swap_by_rename":
            # A1 and B1 trade places (each keeps its inode and times)
            os.rename(a1, a1 + ".x")
            os.rename(b1, a1)
            os.rename(a1 + ".x", b1)
        rc, out, err, to = C.fclones(["group"] + case["args"] + ["r", "-f", "json"], sc, env_extra=case["env"])
        nontrivial = None
        outcome = "error_exit"
        if rc == 0 and not to and run1[0] == 0:
            rep = C.parse_json_report(out)
            outcome = "groups" if rep.groups else "no_groups"
            for g in rep.groups:
                datas = [(C.u(p), C.read_file(p)) for p in g["paths"]]
                if len(datas) >= 2:
                    nontrivial = ["cachehist", meta["L"], meta["o"], meta["hash"], meta["disk"], meta["extra"], edit]
                bad = [p for p, d in datas if d != datas[0][1]]
                if bad:
                    viol.append({"kind": "non_identical_group", "transform": "keep" if meta["tr"] else "none",
                                 "differs_only_beyond_input_len": False,
                                 "first_stage_that_could_see_the_difference": "stale_cache_after_" + edit,
                                 "detail": "after a warm `group --cache` run and edit %s of %s, the next cached run groups files with "
                                           "different bytes: %s vs %s; args %s" % (edit, a1, datas[0][0], bad[0], case["args"])})
                elif g["len"] != len(datas[0][1]):
                    viol.append({"kind": "wrong_length", "transform": "keep" if meta["tr"] else "none",
                                 "detail": "group reports length %d, members have %d bytes" % (g["len"], len(datas[0][1]))})
    return {"violations": viol, "nontrivial": nontrivial, "outcome": outcome, "counters": {"cache_history_cases": 1},
            "sample": {"kind": "cachehist", "args": case["args"], "meta": meta}}


def evaluate_cacheswitch(case):
    """`group --cache --transform 'fcv-tr <first>'`, then `group --cache --transform 'fcv-tr <second>'` on the same
    files: the groups of the second run are compared byte for byte under the second transform."""
    meta = case["meta"]
    viol = []
    nontrivial = None
    outcome = "error_exit"
    with C.Scratch() as sc:
        C.make_tree(sc.tree, case["tree"])
        r1 = C.fclones(["group"] + case["args"] + G.transform_args(meta["first"], "pipe") + ["r", "-f", "json"], sc, env_extra=case["env"])
        rc, out, err, to = C.fclones(["group"] + case["args"] + G.transform_args(meta["tr"][0], "pipe") + ["r", "-f", "json"], sc,
                                     env_extra=case["env"])
        if rc == 0 and not to and r1[0] == 0:
            rep = C.parse_json_report(out)
            outcome = "groups" if rep.groups else "no_groups"
            for g in rep.groups:
                datas = [(C.u(p), G.tr_apply(meta["tr"][0], C.read_file(p))) for p in g["paths"]]
                nontrivial = ["cacheswitch", meta["L"], meta["o"], meta["first"], meta["tr"][0]]
                bad = [p for p, d in datas if d != datas[0][1]]
                if bad:
                    viol.append({"kind": "non_identical_group", "transform": meta["tr"][0], "differs_only_beyond_input_len": False,
                                 "first_stage_that_could_see_the_difference": "stale_cache_of_transform_" + meta["first"],
                                 "detail": "after a cached run with transform %s, the cached run with transform %s groups files with "
                                           "different output: %s vs %s" % (meta["first"], meta["tr"][0], datas[0][0], bad[0])})
                elif g["len"] != len(datas[0][1]):
                    viol.append({"kind": "wrong_length", "transform": meta["tr"][0],
                                 "detail": "after a cached run with transform %s: group reports length %d, transform %s gives %d bytes" % (
                                     meta["first"], g["len"], meta["tr"][0], len(datas[0][1]))})
    return {"violations": viol, "nontrivial": nontrivial, "outcome": outcome, "counters": {"cache_history_cases": 1},
            "sample": {"kind": "cacheswitch", "meta": meta}}


def evaluate_twofs(case):
    """Two freshly mounted tmpfs instances below the scanned root: files created in the same order get the same inode
    numbers on different devices. Same inode number + same length + different bytes must never be grouped."""
    import os
    import subprocess
    from . import c09
    meta = case["meta"]
    if not c09.can_mount():
        return {"violations": [], "nontrivial": None, "outcome": "skipped_no_mount"}
    viol = []
    with C.Scratch() as sc:
        mounts = []
        try:
            for m in ("m1", "m2"):
                d = os.path.join(sc.tree, "r", m)
                os.makedirs(d)
                if subprocess.run(["mount", "-t", "tmpfs", "none", d]).returncode != 0:
                    return {"violations": [], "nontrivial": None, "outcome": "skipped_no_mount"}
                mounts.append(d)
            L, o = meta["L"], meta["o"]
            C.make_tree(sc.tree, [{"p": "r/m1/same", "k": "file", "c": ["base", L, 0]},
                                  {"p": "r/m1/diff", "k": "file", "c": ["base", L, 3]}])
            C.make_tree(sc.tree, [{"p": "r/m2/same", "k": "file", "c": ["base", L, 0]},
                                  {"p": "r/m2/diff", "k": "file", "c": ["flip", L, 3, o]}])
            ino = lambda p: os.stat(os.path.join(sc.tree, p)).st_ino
            same_ino = ino("r/m1/diff") == ino("r/m2/diff") and os.stat(mounts[0]).st_dev != os.stat(mounts[1]).st_dev
            rc, out, err, to = C.fclones(["group"] + case["args"] + ["r", "-f", "json"], sc, env_extra=case["env"])
            if rc == 0 and not to:
                rep = C.parse_json_report(out)
                for g in rep.groups:
                    datas = set(C.read_file(p) for p in g["paths"])
                    if len(datas) > 1:
                        viol.append({"kind": "non_identical_group", "transform": meta["tr"][0] if meta["tr"] else "none",
                                     "differs_only_beyond_input_len": False,
                                     "first_stage_that_could_see_the_difference": "same_inode_number_on_two_devices",
                                     "detail": "files with equal inode numbers on two file systems grouped although their bytes differ: %s; args %s" % (
                                         [C.u(p) for p in g["paths"]], case["args"])})
        finally:
            for d in mounts:
                subprocess.run(["umount", d])
    return {"violations": viol, "nontrivial": ["twofs", meta["L"], meta["o"], meta["hash"], meta["disk"], meta["extra"]] if same_ino else None,
            "outcome": "twofs_same_inode" if same_ino else "twofs_inode_differs",
            "sample": {"kind": "twofs", "args": case["args"], "meta": meta}}


def evaluate_mixed(case):
    """One run over two devices of different kinds (per-device prefix lengths, pools): the files of interest - equal
    up to offset o, differing there - lie on the first device, a pair of candidates on the second one. Both layouts:
    files of interest on the device that is scanned together with a faster / a slower one."""
    import os
    meta = case["meta"]
    if not C.can_loop_mount():
        return {"violations": [], "nontrivial": None, "outcome": "skipped_no_loop_mount"}
    viol = []
    nontrivial = None
    with C.Scratch() as sc:
        os.makedirs(os.path.join(sc.tree, "r2"))
        with C.LoopMount(os.path.join(sc.tree, "r2")):
            C.make_tree(sc.tree, case["tree"])
            env = dict(case["env"], FCLONES_VERIF_DISK_KIND_AT="%s=%s" % (meta["disk2"], os.path.join(sc.tree, "r2")))
            rc, out, err, to = C.fclones(["group"] + case["args"] + case["roots"] + ["-f", "json"], sc, env_extra=env)
            if rc != 0 or to:
                viol.append({"kind": "crash", "transform": "none", "detail": "rc=%s %s" % (rc, err[-300:])})
            else:
                for g in C.parse_json_report(out).groups:
                    datas = [(C.u(p), C.read_file(p)) for p in g["paths"]]
                    if len(datas) >= 2:
                        nontrivial = ["mixed", meta["L"], meta["o"], meta["disk"], meta["disk2"], meta["where"]]
                    bad = [p for p, d in datas if d != datas[0][1]]
                    if bad:
                        viol.append({"kind": "non_identical_group", "transform": "none", "differs_only_beyond_input_len": False,
                                     "first_stage_that_could_see_the_difference": "mixed_device_kinds",
                                     "detail": "devices %s (tree) + %s (r2), files of interest on %s: group of files with different bytes: "
                                               "%s vs %s (length %d, first difference at %s); args %s" % (
                                                   meta["disk"], meta["disk2"], meta["where"], datas[0][0], bad[0], meta["L"], meta["o"], case["args"])})
    return {"violations": viol, "nontrivial": nontrivial, "outcome": "mixed", "counters": {"mixed_device_runs": 1},
            "sample": {"kind": "mixed", "meta": meta}}


def evaluate(case):
    meta = case["meta"]
    if meta["kind"] == "mixed":
        return evaluate_mixed(case)
    if meta["kind"] == "twofs":
        return evaluate_twofs(case)
    if meta["kind"] == "cacherace":
        return evaluate_cacherace(case)
    if meta["kind"] == "cachehist":
        return evaluate_cachehist(case)
    if meta["kind"] == "cacheswitch":
        return evaluate_cacheswitch(case)
    obs = G.run_group(case)
    viol = []
    files = obs["files"]["files"]
    trop = meta["tr"][0] if meta["tr"] else None
    nontrivial = None
    outcome = []
    for ri, run in enumerate(obs["runs"]):
        if run["timeout"]:
            outcome.append("timeout")
            continue
        if run["rc"] != 0 or run["report"] is None:
            outcome.append("panic" if "panicked" in run["err"] else "error_exit")
            continue
        if trop in FAIL_OPS:
            for g in G.observed_groups(run["report"]):
                nontrivial = [meta["kind"], meta["L"], meta["o"], meta["hash"], meta["disk"], meta["extra"], ri]
                viol.append({"kind": "group_of_failed_transforms", "transform": trop, "cached": "--cache" in meta["extra"],
                             "run": ri, "detail": "the transform exits with status 1 for every file, yet run %d reports a group "
                             "of length %d: %s; args %s" % (ri, g["len"], g["paths"][:3], case["args"])})
            nontrivial = nontrivial or [meta["kind"], meta["L"], meta["o"], "failing transform", meta["extra"], ri]
            outcome.append("groups" if run["report"].groups else "no_groups")
            continue
        for g in G.observed_groups(run["report"]):
            datas = []
            for p in g["paths"]:
                f = files.get(p)
                if f is None:
                    continue   # not C01's business (C03 reports unknown paths)
                datas.append((p, G.tr_apply(trop, f["data"]) if trop else f["data"]))
            if len(datas) >= 2:
                nontrivial = [meta["kind"], meta["L"], meta["o"], meta["hash"], meta["disk"], meta["extra"], ri]
            base = datas[0][1] if datas else None
            bad = [p for p, d in datas if d != base]
            stage = stage_for(meta["L"], meta["o"], meta["disk"], _num(meta["extra"], "--max-prefix-size"),
                              _num(meta["extra"], "--max-suffix-size"))
            if bad:
                beyond = False
                if trop and meta["o"] is not None:
                    raw = [files[p]["data"] for p, _ in datas]
                    n = min(len(x) for x in raw)
                    beyond = all(d[:n] == base[:n] for _, d in datas)
                viol.append({"kind": "non_identical_group", "transform": trop or "none",
                             "differs_only_beyond_input_len": beyond,
                             "first_stage_that_could_see_the_difference": stage if not trop else "transform",
                             "detail": "group of length %d lists files with different bytes: %s vs %s; args %s disk %s run %d"
                                       % (g["len"], datas[0][0], bad[0], case["args"], meta["disk"], ri)})
            elif datas and g["len"] != len(base):
                viol.append({"kind": "wrong_length", "transform": trop or "none",
                             "detail": "group reports length %d but members have %d bytes; args %s" % (
                                 g["len"], len(base), case["args"])})
        outcome.append("groups" if run["report"].groups else "no_groups")
    stage = stage_for(meta["L"], meta["o"], meta["disk"], _num(meta["extra"], "--max-prefix-size"),
                      _num(meta["extra"], "--max-suffix-size"))
    return {"violations": viol, "nontrivial": nontrivial, "outcome": outcome,
            "counters": {"stage_" + stage: 1} if not trop else {"transform_cases": 1},
            "sample": {"roots": case["roots"], "args": case["args"], "env": case["env"], "meta": meta,
                       "tree": [e["p"] for e in case["tree"]]}}


def _num(extra, name):
    v = G.flag_value(extra, name)
    return int(v) if v is not None else None


def finish(stats, tier):
    c = stats.get("counters", {})
    out = []
    for st in ("stage_prefix", "stage_suffix", "stage_content"):
        if not c.get(st):
            out.append("no case in which the differing byte is first visible to the %s" % st)
    if not c.get("transform_cases"):
        out.append("no transform case")
    if not c.get("cache_history_cases"):
        out.append("no cache history case")
    if not stats["outcomes"].get("groups"):
        out.append("no run reported any group")
    return out


RULE += ' Since rounds 10-11 also: classes of different length sharing their first 4096 bytes, in both arrival orders; one run over two devices pinned to different kinds (scratch fs + loop-mounted ext4), lengths around 4 KiB / 16 KiB, files of interest on either device.'


RULE += " Since round 12 also: every tree x replication filter {--rf-under 3, --rf-under 4, --unique, --rf-over 0, --rf-over 2, --rf-under 2 --isolate}."
