"""C06 Replica counting honours links, isolation and the replication filter (shape I, engine E2)."""
import itertools

from .. import common as C
from .. import grouplab as G

ID = "C06"
LEVEL = "exploration"
RULE = ("one content class of n paths (n<=3 quick, <=4 thorough; 25-byte or 20000-byte files alternately, so that both the pass-through and the re-hashing code paths count replicas) plus a decoy of the same size: every set partition of "
        "the paths into inodes (hard links), every placement into roots r1/r1x (one name a string prefix of the other) and a sub-directory, optional "
        "replacement of a path by a relative/absolute symlink to another member; x {none,-H,--isolate,-S,-S -H,-L,"
        "-L -S,--isolate -H} x {--rf-over 0..3, --rf-under 1..3, --unique} x root order; names whose components concatenate to the same bytes (a/b, ab) as hard links and as copies; overlapping input paths (r1/sub before / after r1, r1/sub/deep with r1/sub/..) x {none, -H}; spelling sub-space: the same "
        "scenarios with roots spelled absolute, relative, ./r, r/, r/../r, through a directory symlink, and relative to --base-dir with the command started elsewhere. Oracle: "
        "replica count from the statement (distinct inodes, paths under -H, roots under --isolate), strict filter, "
        "all paths of a reported class listed, same verdict for every spelling. Non-trivial = class with >= 2 paths "
        "or a link; distinct by (structure, flags, filter, spelling).")
ASSUMPTIONS = ["under --isolate, links (hard or symbolic) that cross roots are outside the alphabet, and for NESTED roots both readings of 'which root owns the path' are accepted (the verdict must be one of them and may not depend on the order the files were created in); other overlapping roots under --isolate are outside the alphabet (overlapping roots without --isolate are enumerated): "
               "the documentation does not say which rule wins",
               "--stdin with --isolate and hidden roots are outside the alphabet"]

FLAGSETS = [[], ["-H"], ["--isolate"], ["-S"], ["-S", "-H"], ["-L"], ["-L", "-S"], ["--isolate", "-H"]]
FILTERS = [[], ["--rf-over", "0"], ["--rf-over", "2"], ["--rf-over", "3"], ["--rf-under", "1"], ["--rf-under", "2"],
           ["--rf-under", "3"], ["--unique"]]
SPELLINGS = ["rel", "abs", "dot", "slash", "dotdot", "symlink", "basedir", "via_other"]


def prepare(tier):
    C.build_hooks()


def set_partitions(n):
    """All set partitions of range(n) as lists of blocks (restricted growth strings)."""
    def rec(i, rgs, m):
        if i == n:
            yield list(rgs)
            return
        for b in range(m + 1):
            rgs.append(b)
            yield from rec(i + 1, rgs, max(m, b + 1))
            rgs.pop()
    return list(rec(0, [], 0))


def spell(root, how, tree_root_placeholder="@TREE@"):
    if how in ("rel", "basedir"):      # basedir: relative to --base-dir, the command runs elsewhere
        return root
    if how == "abs":
        return tree_root_placeholder + "/" + root
    if how == "dot":
        return "./" + root
    if how == "slash":
        return root + "/"
    if how == "dotdot":
        return root + "/../" + root
    if how == "symlink":
        return "lnk_" + root
    if how == "via_other":
        # spelled through the OTHER root (r1/../r1x): textually below it, in fact a sibling
        other = "r1x" if root.split("/")[0] == "r1" else "r1"
        return other + "/../" + root
    raise ValueError(how)


def structure(n, rgs, placement, sym, big=False):
    """rgs[i] = inode block of path i; placement[i] in {0: r1/d, 1: r2/d, 2: r1/sub/deep}; sym = None or
    (i, j, 'rel'|'abs'): path i is a symlink to path j."""
    dirs = ["r1/d", "r1x/d", "r1/sub/deep"]   # "r1" is a string prefix of "r1x" but not a path prefix
    paths = ["%s/m%d" % (dirs[placement[i]], i) for i in range(n)]
    tree = []
    first_of_block = {}
    for i in range(n):
        if sym and sym[0] == i:
            continue
        b = rgs[i]
        if b in first_of_block:
            tree.append({"p": paths[i], "k": "hard", "to": paths[first_of_block[b]]})
        else:
            first_of_block[b] = i
            # big: long enough to be re-hashed (and regrouped in arrival order) by the content stage
            tree.append({"p": paths[i], "k": "file", "c": ["base", 20000, 3] if big else ["lit", "same-content-of-the-class"]})
    if sym:
        i, j, how = sym
        tgt = ("@TREE@/" + paths[j]) if how == "abs" else "../" * paths[i].count("/") + paths[j]
        tree.append({"p": paths[i], "k": "sym", "to": tgt})
    tree.append({"p": "r1/d/decoy", "k": "file", "c": ["flip", 20000, 3, 19999] if big else ["lit", "other-content-of-the-clas0"]})
    tree.append({"p": "r1x/d", "k": "dir"})
    tree.append({"p": "lnk_r1", "k": "sym", "to": "r1"})
    tree.append({"p": "lnk_r1x", "k": "sym", "to": "r1x"})
    return tree, paths


def crosses_roots(n, rgs, placement, sym):
    root = [0 if p in (0, 2) else 1 for p in placement]
    for i in range(n):
        for j in range(i):
            if rgs[i] == rgs[j] and root[i] != root[j]:
                return True
    if sym and root[sym[0]] != root[sym[1]]:
        return True
    return False


def cases(tier, seed):
    quick = tier == "quick"
    out = []
    idx = 0
    for n in range(1, (3 if quick else 4) + 1):
        for rgs in set_partitions(n):
            for placement in itertools.product((0, 1, 2) if n <= 2 or not quick else (0, 1), repeat=n):
                syms = [None]
                if n >= 2:
                    syms += [(n - 1, 0, "rel"), (n - 1, 0, "abs")]
                for sym in syms:
                    if sym and rgs[sym[0]] in [rgs[k] for k in range(n) if k != sym[0]]:
                        continue   # a symlink path cannot also be a hard link of another path
                    tree, paths = structure(n, rgs, placement, sym, big=(len(out) % 2 == 1))
                    cross = crosses_roots(n, rgs, placement, sym)
                    for flags in FLAGSETS:
                        if "--isolate" in flags and cross:
                            continue
                        if sym is None and ("-S" in flags or "-L" in flags) and idx % 4:
                            idx += 1
                            continue
                        for flt in FILTERS:
                            idx += 1
                            if quick and n == 3 and idx % 3:
                                continue
                            order = ["r1", "r1x"] if idx % 2 else ["r1x", "r1"]
                            if "--isolate" in flags and flt in (["--rf-over", "2"], ["--rf-over", "3"],
                                                                ["--rf-under", "3"]):
                                continue   # rejected by fclones: needs more roots than the replication bound
                            meta = {"n": n, "rgs": rgs, "placement": list(placement), "sym": sym, "flags": flags,
                                    "filter": " ".join(flt) or "default", "spelling": "rel", "order": order}
                            out.append({"tree": tree, "roots": order, "args": ["--min", "0"] + flags + flt,
                                        "meta": meta, "spellings": ["rel"]})
                            if idx % (9 if quick else 3) == 0:
                                # the replication filter decides the same way when the content stage is skipped
                                # (the suffix stage is then the last one)
                                # (the decoy then has to differ within the hashed prefix to be another class)
                                tree2 = [dict(e, c=["flip", 20000, 3, 0]) if e.get("c", [None])[0] == "flip" else e
                                         for e in tree]
                                out.append({"tree": tree2, "roots": order,
                                            "args": ["--min", "0", "--skip-content-hash"] + flags + flt,
                                            "meta": dict(meta, flags=flags + ["--skip-content-hash"]), "spellings": ["rel"]})
                    # spelling sub-space: a few flag/filter combinations, all spellings in one case
                    for flags in ([], ["--isolate"], ["-H"]):
                        if "--isolate" in flags and cross:
                            continue
                        for flt in ([], ["--rf-over", "0"], ["--unique"]):
                            idx += 1
                            if quick and idx % 2:
                                continue
                            meta = {"n": n, "rgs": rgs, "placement": list(placement), "sym": sym, "flags": flags,
                                    "filter": " ".join(flt) or "default", "spelling": "all", "order": ["r1", "r1x"]}
                            out.append({"tree": tree, "roots": ["r1", "r1x"], "args": ["--min", "0"] + flags + flt,
                                        "meta": meta, "spellings": SPELLINGS})
                    # overlapping input paths (no --isolate): a path reached through two roots is one path, whatever
                    # the order of the roots - also under --match-links, where every PATH counts as a replica
                    if sym is None and 2 in placement:
                        for order in (["r1/sub", "r1", "r1x"], ["r1", "r1/sub", "r1x"], ["r1/sub/deep", "r1x", "r1/sub/.."],
                                      ["./r1/sub/", "r1x", "r1/sub/.."],
                                      # a root BELOW a symlinked directory (lnk_r1 -> r1), alone and next to its real name
                                      ["lnk_r1/sub", "r1x"], ["r1/sub", "lnk_r1/sub", "r1x"], ["lnk_r1/sub/deep", "r1/sub", "r1x"]):
                            for flags in ([], ["-H"]):
                                for flt in ([], ["--rf-over", "0"], ["--rf-over", "2"], ["--unique"]):
                                    meta = {"n": n, "rgs": rgs, "placement": list(placement), "sym": sym, "flags": flags,
                                            "filter": " ".join(flt) or "default", "spelling": "overlap", "order": order}
                                    out.append({"tree": tree, "roots": order, "args": ["--min", "0"] + flags + flt,
                                                "meta": meta, "spellings": ["rel"]})
    # names whose components concatenate to the same bytes (a/b vs ab): hard links of one file / plain copies
    collide = [
        ([{"p": "r1/a/b", "k": "file", "c": ["lit", "same-content-of-the-class"]}, {"p": "r1/ab", "k": "hard", "to": "r1/a/b"},
          {"p": "r1/c", "k": "file", "c": ["lit", "same-content-of-the-class"]}, {"p": "r1x/d", "k": "dir"}], [0, 0, 1]),
        ([{"p": "r1/a/b", "k": "file", "c": ["lit", "same-content-of-the-class"]}, {"p": "r1/ab", "k": "file", "c": ["lit", "same-content-of-the-class"]},
          {"p": "r1x/a/b", "k": "file", "c": ["lit", "same-content-of-the-class"]}], [0, 1, 2]),
    ]
    for tree, rgs in collide:
        for flags in ([], ["-H"], ["-L"], ["-L", "-H"], ["--isolate"]):
            for flt in FILTERS:
                if "--isolate" in flags and flt in (["--rf-over", "2"], ["--rf-over", "3"], ["--rf-under", "3"]):
                    continue
                meta = {"n": 3, "rgs": rgs, "placement": [0, 0, 0], "sym": None, "flags": flags,
                        "filter": " ".join(flt) or "default", "spelling": "colliding_names", "order": ["r1", "r1x"]}
                out.append({"tree": tree, "roots": ["r1", "r1x"], "args": ["--min", "0"] + flags + flt, "meta": meta, "spellings": ["rel"]})
    out += nested_cases()
    return out


def subst(x, root):
    return x.replace("@TREE@", root)


def nested_cases():
    """--isolate with NESTED roots (a and a/b). Which root owns a path below both is not documented: both readings
    (the first root in the order given that contains the path; the innermost root) are accepted - but the verdict must be
    ONE of them, whatever the order in which the files were created / arrive."""
    out = []
    for big in (False, True):
        for layout in ("outer+inner", "two_inner", "outer+inner+other"):
            for order in (["a/b", "a"], ["a", "a/b"], ["a/b", "a", "c"], ["c", "a", "a/b"]):
                if ("c" in order) != (layout == "outer+inner+other"):
                    continue
                for flt in ([], ["--unique"], ["--rf-over", "0"]):
                    out.append({"kind": "nested", "big": big, "layout": layout, "order": order, "flt": flt})
                    # the same with MANY more input roots that hold unrelated unique files (7: nine or ten roots in
                    # all, 14: sixteen or more): the verdict for the class may not depend on their number
                    if not big:
                        for extra in (7, 14):
                            out.append({"kind": "nested", "big": big, "layout": layout, "order": order, "flt": flt, "extra": extra})
    return out


def evaluate_nested(case):
    viol = []
    content = ["base", 20000, 4] if case["big"] else ["lit", "same-content-of-the-class"]
    files = {"outer+inner": ["a/outer", "a/b/inner"], "two_inner": ["a/b/i1", "a/b/sub/i2"],
             "outer+inner+other": ["a/outer", "a/b/inner", "c/other"]}[case["layout"]]
    roots = case["order"]

    def owner(p, model):
        cands = [r for r in roots if p == r or p.startswith(r + "/")]
        if not cands:
            return None
        return cands[0] if model == "first" else max(cands, key=len)
    rf_over, rf_under = 1, 0
    if case["flt"] == ["--unique"]:
        rf_over, rf_under = 10 ** 9, 2
    elif case["flt"] == ["--rf-over", "0"]:
        rf_over = 0
    allowed = set()
    for model in ("first", "innermost"):
        count = len(set(owner(p, model) for p in files))
        allowed.add(count > rf_over or count < rf_under)
    verdicts = []
    extra_roots = ["x%02d" % i for i in range(case.get("extra", 0))]
    by_extra = {}
    for rev, with_extra in ((False, True), (True, True)) + (((False, False),) if extra_roots else ()):
        xr = extra_roots if with_extra else []
        with C.Scratch() as sc:
            ents = [{"p": p, "k": "file", "c": content} for p in (reversed(files) if rev else files)]
            ents.append({"p": "a/zz_decoy", "k": "file", "c": ["flip", 20000, 4, 19999] if case["big"] else ["lit", "other-content-of-the-clas0"]})
            for d in ("a/b", "c"):
                ents.append({"p": d, "k": "dir"})
            for x in extra_roots:
                ents.append({"p": x + "/u", "k": "file", "c": ["lit", "unrelated unique file %s....." % x]})
            C.make_tree(sc.tree, ents)
            # (the unrelated roots are spread between the roots under test, which keep their relative order)
            all_roots = (xr[:3] + roots[:1] + xr[3:5] + roots[1:] + xr[5:]) if xr else roots
            args = ["group", "--min", "0", "--isolate"] + case["flt"] + all_roots + ["-f", "json"]
            rc, out, err, to = C.fclones(args, sc)
            feat = {"kind": "count_wrong", "root_spelling": "nested", "flags": "--isolate", "filter": " ".join(case["flt"]) or "default",
                    "nested_isolate_roots": True}
            if to or rc != 0:
                viol.append(dict(feat, kind="crash" if to or b"panicked" in err else "error_exit",
                                 detail="rc=%s %s; %s" % (rc, err.decode("utf-8", "replace")[-300:], args)))
                continue
            rep = C.parse_json_report(out)
            want = frozenset(sc.path(p).decode() for p in files)
            reported = any(frozenset(C.u(p) for p in g["paths"]) == want for g in rep.groups)
            partial = [sorted(C.u(p) for p in g["paths"]) for g in rep.groups
                       if frozenset(C.u(p) for p in g["paths"]) & want and frozenset(C.u(p) for p in g["paths"]) != want]
            if partial:
                viol.append(dict(feat, kind="paths_incomplete", detail="%s: group %s does not list the whole class %s" % (args, partial, files)))
            by_extra.setdefault(with_extra, []).append(reported)
            if with_extra:
                verdicts.append(reported)
            if reported not in allowed:
                viol.append(dict(feat, detail="%s (files created in %s order): class %s %s, but it holds %s replicas under either reading of "
                                 "nested roots" % (args, "reverse" if rev else "listed", files, "reported" if reported else "not reported",
                                                   sorted(set(len(set(owner(p, m) for p in files)) for m in ("first", "innermost"))))))
    if len(set(verdicts)) > 1:
        viol.append({"kind": "depends_on_creation_order", "root_spelling": "nested", "flags": "--isolate",
                     "filter": " ".join(case["flt"]) or "default", "nested_isolate_roots": True,
                     "detail": "--isolate %s %s: the class %s is reported or not depending on the order in which the files were created" % (
                         roots, case["flt"], files)})
    if extra_roots and by_extra.get(False) and by_extra.get(True) and by_extra[False][0] != by_extra[True][0]:
        viol.append({"kind": "depends_on_unrelated_roots", "root_spelling": "nested", "flags": "--isolate",
                     "filter": " ".join(case["flt"]) or "default", "nested_isolate_roots": True,
                     "detail": "--isolate %s %s: the class %s is %s with these roots alone and %s when %d further roots with unrelated files are given" % (
                         roots, case["flt"], files, "reported" if by_extra[False][0] else "not reported",
                         "reported" if by_extra[True][0] else "not reported", len(extra_roots))})
    return {"violations": viol, "evaluations": 2 + (1 if extra_roots else 0), "nontrivial": ["nested", case["big"], case["layout"], case["order"], case["flt"], case.get("extra", 0)],
            "outcome": ["nested_isolate"], "sample": {"nested": case}}


def evaluate(case):
    if case.get("kind") == "nested":
        return evaluate_nested(case)
    meta = case["meta"]
    viol = []
    outcome = []
    results = {}
    with C.Scratch() as sc:
        tree = [dict(e, to=subst(e["to"], sc.tree)) if e["k"] == "sym" else e for e in case["tree"]]
        C.make_tree(sc.tree, tree)
        ref = G.scan_reference(sc.tree, {"roots": case["roots"], "args": case["args"]})
        exp = G.expected_groups(ref, case)
        exp_rep = set(e["paths"] for e in exp if e["reported"])
        for sp in case["spellings"]:
            roots = [subst(spell(r, sp), sc.tree) for r in case["roots"]]
            if sp == "via_other":
                # the first root as it is, the others spelled through it
                roots = [case["roots"][0]] + roots[1:]
            if sp == "basedir":
                rc, out, err, to = C.fclones(["group", "--base-dir", sc.tree] + case["args"] + roots + ["-f", "json"], sc, cwd=sc.root)
            else:
                rc, out, err, to = C.fclones(["group"] + case["args"] + roots + ["-f", "json"], sc)
            if to or rc != 0:
                viol.append({"kind": "crash" if (to or b"panicked" in err) else "error_exit", "root_spelling": sp,
                             "flags": " ".join(meta["flags"]), "filter": meta["filter"],
                             "detail": "rc=%s %s; args %s roots %s" % (rc, err.decode("utf-8", "replace")[-300:], case["args"], roots)})
                outcome.append("error")
                continue
            rep = C.parse_json_report(out)
            got = set(frozenset(C.u(p) for p in g["paths"]) for g in rep.groups)
            for g in rep.groups:
                if len(set(g["paths"])) != len(g["paths"]):
                    viol.append({"kind": "path_listed_twice", "root_spelling": sp, "flags": " ".join(meta["flags"]),
                                 "filter": meta["filter"], "detail": "group %s; args %s roots %s" % (
                                     [C.u(p) for p in g["paths"]], case["args"], roots)})
            results[sp] = got
            if got != exp_rep:
                # classify
                if any(s not in exp_rep and not any(s < e for e in exp_rep) for s in got) or \
                        any(s not in got and not any(s > g for g in got) for s in exp_rep):
                    kind = "count_wrong"
                else:
                    kind = "paths_incomplete"
                if sp != "rel" and results.get("rel") == exp_rep:
                    kind = "spelling_dependent"
                viol.append({"kind": kind, "root_spelling": sp, "flags": " ".join(meta["flags"]), "filter": meta["filter"],
                             "has_symlink": meta["sym"] is not None,
                             "detail": "reported %s, expected %s; counts %s; args %s roots %s structure %s" % (
                                 sorted(sorted(x) for x in got), sorted(sorted(x) for x in exp_rep),
                                 [(sorted(e["paths"])[0], e["count"]) for e in exp], case["args"], roots,
                                 {k: meta[k] for k in ("n", "rgs", "placement", "sym")})})
            outcome.append("reported" if got else "nothing_reported")
    nontriv = None
    if meta["n"] >= 2:
        nontriv = [meta["n"], meta["rgs"], meta["placement"], meta["sym"], meta["flags"], meta["filter"],
                   meta["spelling"], meta["order"]]
    return {"violations": viol, "nontrivial": nontriv, "outcome": outcome, "evaluations": len(case["spellings"]),
            "counters": {"spelling_runs": len(case["spellings"]) if len(case["spellings"]) > 1 else 0,
                         "link_cases": 1 if (meta["sym"] or len(set(meta["rgs"])) < meta["n"]) else 0},
            "sample": {"args": case["args"], "roots": case["roots"], "meta": meta}}


def finish(stats, tier):
    c = stats.get("counters", {})
    out = []
    if not c.get("spelling_runs"):
        out.append("no spelling variation explored")
    if not c.get("link_cases"):
        out.append("no hard link / symlink structure explored")
    for o in ("reported", "nothing_reported"):
        if not stats["outcomes"].get(o):
            out.append("outcome never observed: " + o)
    return out


RULE += ' Since rounds 10-11 also: roots below a symlinked directory; every flag set x filter also with --skip-content-hash (decoy differing inside the hashed prefix).'
RULE += ' Since round 12 also: the nested-root cases with 7 / 14 further input roots holding unrelated files (nine and more roots in all): the verdict may not depend on their number.'
