"""C04 A stale report never causes removal of changed data (shapes F + H; engine E1 pause@k + external mutator)."""
import os
import shutil
import subprocess
import time

from .. import common as C
from .. import dedupelab as D
from .. import shimlab as S

ID = "C04"
LEVEL = "model_checking"
RULE = ("trees {group of 2, group of 3 with a hard link, two groups, two --isolate roots with two files each, the pair plus 100 filler groups with `-o /dev/full` (a report that cannot be written; whatever report reaches standard output instead is used)} x target file f in {retained member, dropped member, second file of a retained / dropped isolate root} x "
        "mutation in {rewrite same length, rewrite other length, append, truncate, delete, delete+recreate same bytes, "
        "delete+recreate other bytes, replace by directory, by dangling symlink, by symlink to a fresh file, by symlink to an old file of the same length, replace by a named pipe, touch} x "
        "position: the external mutator is interleaved at EVERY event k (file-system read calls and clock reads) of the "
        "recorded `group -t 1` run from the first access to f until process exit (quick: one position per phase), while the DEDUPE command itself is running (two groups with members in one old directory; the command is stopped at every call before it first touches f, quick: four positions), plus "
        "'between group and dedupe' (the pair tree also with both commands running in time zones UTC+9, UTC-8, UTC+5:30, and with the dedupe command running in another zone than `group`: +9 -> 0, 0 -> -8, -8 -> +9, +5:30 -> +4:30); then each dedupe op {remove, link, link --soft, dedupe, move} and {remove, link, move} x {-n 1, --rf-over 1, --priority newest, --no-lock, --keep-name <matches nothing>, --keep-name / --name / --keep-path patterns that protect one member} (quick: remove, link, remove -n 1, link --priority newest, and four protecting patterns) "
        "acts on the report that run produced. A state is one complete (group || mutator ; dedupe) execution, "
        "transitions are the events of the group history. Invariant: every content digest held by a regular file just "
        "before the dedupe run is still held by one afterwards (tree + move target); files outside the groups untouched.")
ASSUMPTIONS = ["mutations update mtime as ordinary writes do (mtime-preserving replacement is outside the statement)",
               "25 ms are slept before and after each mutation so that clock granularity (coarse kernel timestamps, the "
               "millisecond header) cannot decide the outcome",
               "group runs single-threaded (-t 1) so that positions are well defined; determinism is re-proved per case"]

TREES = {
    "pair": [{"p": "r/a/f1", "k": "file", "c": ["base", 3000, 1]}, {"p": "r/b/f2", "k": "file", "c": ["base", 3000, 1]},
             {"p": "r/b/other", "k": "file", "c": ["base", 3000, 5]}],
    "triple_hard": [{"p": "r/a/f1", "k": "file", "c": ["base", 70000, 1]}, {"p": "r/b/f2", "k": "file", "c": ["base", 70000, 1]},
                    {"p": "r/c/f3", "k": "file", "c": ["base", 70000, 1]}, {"p": "r/c/f3h", "k": "hard", "to": "r/c/f3"}],
    "two_groups": [{"p": "r/a/f1", "k": "file", "c": ["lit", "xxxxxxxx"]}, {"p": "r/b/f2", "k": "file", "c": ["lit", "xxxxxxxx"]},
                   {"p": "r/a/g1", "k": "file", "c": ["base", 5000, 2]}, {"p": "r/b/g2", "k": "file", "c": ["base", 5000, 2]}],
}
# (group arguments, input roots, target files) per tree; default: no extra arguments, root r, both f1 and f2
TREE_OPTS = {
    "isolate": (["--isolate"], ["r1", "r2"], ["r1/b/f2", "r2/c/f4", "r2/c/f3"]),
}
TREES["isolate"] = [{"p": "r1/a/f1", "k": "file", "c": ["base", 3000, 1]}, {"p": "r1/b/f2", "k": "file", "c": ["base", 3000, 1]},
                    {"p": "r2/c/f3", "k": "file", "c": ["base", 3000, 1]}, {"p": "r2/c/f4", "k": "file", "c": ["base", 3000, 1]}]
# the pair again, with 100 further small groups so that the report is larger than any write buffer; `group -o /dev/full`
# cannot write it - should a report then appear on standard output instead, it is used like any other report
TREES["pair_big"] = TREES["pair"] + [
    {"p": "r/fill/%s%03d_%d" % ("n" * 50, i, j), "k": "file", "c": ["lit", "filler %03d" % i]} for i in range(100) for j in (1, 2)]
TREE_OPTS["pair_big"] = (["-o", "/dev/full"], ["r"], ["r/a/f1", "r/b/f2"])
# one group of 70 files (a large group may be inspected in batches or in parallel): the changed member is the first, one
# around position 64, or the last of the group
TREES["group70"] = [{"p": "r/g/f%02d" % i, "k": "file", "c": ["base", 3000, 1]} for i in range(70)] + [
    {"p": "r/g/other", "k": "file", "c": ["base", 3000, 5]}]
TREE_OPTS["group70"] = ([], ["r"], ["r/g/f00", "r/g/f15", "r/g/f63", "r/g/f64", "r/g/f68", "r/g/f69"])
MUTATIONS = ["rewrite_same_len", "rewrite_other_len", "append", "truncate", "delete", "recreate_same", "recreate_other",
             "to_directory", "to_dangling_symlink", "to_symlink_fresh", "to_symlink_old", "to_fifo", "touch"]
OPS = ["remove", "link", "softlink", "dedupe", "move"]
# options of the dedupe command that must not switch the staleness guard off (op|option set)
OPTSETS = {"": [], "n1": ["-n", "1"], "rfover1": ["--rf-over", "1"], "newest": ["--priority", "newest"],
           "nolock": ["--no-lock"], "keepnone": ["--keep-name", "no-such-name*"],
           # patterns that protect one member of the pair (f1 resp. f2) from being dropped
           "keep_f1": ["--keep-name", "f1"], "keep_f2": ["--keep-name", "f2"], "name_f2": ["--name", "f2"],
           "name_f1": ["--name", "f1"], "keep_path_a": ["--keep-path", "**/a/**"]}
OPS_T = OPS + ["%s|%s" % (o, k) for o in ("remove", "link", "move") for k in OPTSETS if k]
OPS_Q = ["remove", "link", "remove|n1", "link|newest", "remove|keep_f1", "link|keep_f2", "remove|name_f2", "link|name_f1"]


def prepare(tier):
    S.prepare()


def cases(tier, seed):
    out = []
    for t in TREES:
        for f in (TREE_OPTS[t][2] if t in TREE_OPTS else ("r/a/f1", "r/b/f2")):
            for m in MUTATIONS:
                if t == "pair_big" and tier == "quick" and m not in ("rewrite_same_len", "recreate_other", "touch"):
                    continue
                if t == "group70" and m not in (("rewrite_same_len", "recreate_other", "to_symlink_old") if tier == "quick" else MUTATIONS[:11]):
                    continue
                out.append({"tree": t, "f": f, "mutation": m, "tier": tier})
    # a file system that keeps whole seconds only (ext3, FAT, many network mounts): `group` starts in the second half of
    # second T, the file is rewritten (same length) during second T+1 and therefore carries the time T+1.000
    for f in ("r/a/f1", "r/b/f2"):
        out.append({"tree": "pair", "f": f, "mutation": "rewrite_whole_second", "tier": tier})
    # the same question in time zones east and west of UTC (the report timestamp carries a UTC offset)
    for tz in ("JST-9", "PST8", "<+0530>-5:30"):
        for f in ("r/a/f1", "r/b/f2"):
            for m in (MUTATIONS if tier == "thorough" else ("rewrite_same_len", "recreate_other", "touch", "to_symlink_fresh")):
                out.append({"tree": "pair", "f": f, "mutation": m, "tier": tier, "tz": tz})
    # the dedupe command runs in another time zone than `group` did (report carried to another machine, or the end of
    # daylight-saving time between the two runs)
    for tz, tz2 in (("JST-9", "UTC0"), ("UTC0", "PST8"), ("PST8", "JST-9"), ("<+0530>-5:30", "<+0430>-4:30")):
        for f in ("r/a/f1", "r/b/f2"):
            for m in (MUTATIONS if tier == "thorough" else ("rewrite_same_len", "recreate_other", "touch")):
                out.append({"tree": "pair", "f": f, "mutation": m, "tier": tier, "tz": tz, "tz_dedupe": tz2})
    # the change lands while the TRANSFORM program of that very file is running (`group --transform`): after the program
    # has read the file, before it exits - the k-th program started is held until the change has been made
    for k in range(3):
        for m in (MUTATIONS if tier == "thorough" else ("rewrite_same_len", "recreate_other", "append", "touch")):
            if m == "to_fifo":
                continue
            for mode in (("pipe", "in") if tier == "thorough" or m == "rewrite_same_len" else ("pipe",)):
                out.append({"kind": "during_transform", "tree": "pair", "at": k, "mutation": m, "mode": mode, "tier": tier})
    # the change lands while the DEDUPE command is already running - after it has dealt with an earlier group, before
    # it inspects the group of the changed file (both groups have members in the same directory)
    for f in ("r/d/k1", "r/d/k2"):
        for m in (MUTATIONS if tier == "thorough" else ("rewrite_same_len", "recreate_other", "to_symlink_old", "to_symlink_fresh", "delete", "to_directory")):
            if m == "to_fifo":
                continue
            for op in (OPS if tier == "thorough" else ("remove", "link", "move")):
                out.append({"kind": "during_dedupe", "tree": "same_dir", "f": f, "mutation": m, "op": op, "tier": tier})
    return out


SAME_DIR = [{"p": "r/d/a1", "k": "file", "c": ["base", 9000, 1]}, {"p": "r/d/a2", "k": "file", "c": ["base", 9000, 1]},
            {"p": "r/d/k1", "k": "file", "c": ["base", 3000, 2]}, {"p": "r/d/k2", "k": "file", "c": ["base", 3000, 2]},
            {"p": "r/e/k3", "k": "file", "c": ["base", 3000, 2]}]


def evaluate_during_transform(case):
    import hashlib
    viol = []
    states = 0
    reached = []
    ops = OPS if case["tier"] == "thorough" else ("remove", "link")
    with C.Scratch() as sc:
        target = os.path.join(sc.root, "moved")
        snap = os.path.join(sc.root, "snap")
        C.make_tree(sc.tree, TREES[case["tree"]])
        sdir = os.path.join(sc.root, "sync")
        os.makedirs(sdir)
        tr = "fcv-tr synckeep" + (" $IN" if case["mode"] == "in" else "")
        env = sc.env({"FCV_TR_SYNC_DIR": sdir, "FCV_TR_SYNC_AT": str(case["at"])})
        p = subprocess.Popen([C.b(C.FCLONES), b"group", b"-t", b"1", b"--transform", C.b(tr), b"r"], cwd=C.b(sc.tree), env=env,
                             stdin=subprocess.DEVNULL, stdout=subprocess.PIPE, stderr=subprocess.PIPE)
        t0 = time.time()
        changed = None
        while time.time() - t0 < 20 and p.poll() is None:
            if os.path.exists(os.path.join(sdir, "read_done")):
                digest, _, where = open(os.path.join(sdir, "read_done"), errors="surrogateescape").read().partition("\n")
                digest, where = digest.strip(), where.strip()
                # (the pair holds the same bytes: the program may have read either of them; the one it is working on
                # is the one fclones has open - take the member whose name sorts first among those with that content
                # and that has not been transformed yet: with -t 1 files are handled one at a time)
                cands = sorted(q for q in (os.path.join(dp, fn) for dp, dn, fns in os.walk(sc.tree) for fn in fns)
                               if hashlib.sha256(C.read_file(q)).hexdigest() == digest)
                seen = len([x for x in os.listdir(sdir) if x.startswith("seen-")])
                # pipe mode: the program's standard input IS the scanned file; $IN mode: it got a private copy - the
                # k-th program works on the k-th file of that content (single-threaded run, files in walk order)
                changed = where if where.startswith(sc.tree + "/") else (cands[min(len(cands) - 1, case["at"])] if cands else None)
                if changed:
                    mutate(changed, case["mutation"], sc)
                open(os.path.join(sdir, "go"), "w").close()
                break
            time.sleep(0.005)
        out, err = p.communicate(timeout=60)
        if changed is None:
            return {"violations": [], "states": 0, "transitions": 0, "evaluations": 0, "nontrivial": None, "outcome": "transform_not_reached",
                    "counters": {"changes_during_a_transform": 0}}
        if p.returncode != 0:
            viol.append({"kind": "group_failed", "mutation": case["mutation"], "phase": "during_the_transform", "op": "group",
                         "detail": "rc=%s %s" % (p.returncode, err.decode("utf-8", "replace")[-300:])})
            return {"violations": viol, "states": 1, "transitions": 1, "evaluations": 1, "nontrivial": None, "outcome": "explored",
                    "counters": {"changes_during_a_transform": 1}}
        report = out
        subprocess.run(["cp", "-a", sc.tree, snap], check=True)
        for op in ops:
            C.rmtree(sc.tree)
            C.rmtree(target)
            subprocess.run(["cp", "-a", snap, sc.tree], check=True)
            before = C.inventory(sc.tree)
            r = D.run_dedupe(sc, op, [], report, target=target)
            after = C.inventory(sc.tree, target) if os.path.exists(target) else C.inventory(sc.tree)
            states += 1
            reached.append(["during_transform", case["at"], case["mutation"], case["mode"], op])
            sb = set(x["sha"] for x in before.values() if x["type"] == "file")
            sa = set(x["sha"] for x in after.values() if x["type"] == "file")
            feat = {"mutation": case["mutation"], "phase": "during_the_transform_of_the_file", "op": op,
                    "target_is_retained_member": changed.endswith("f1"), "isolate": False, "report_from_stdout_fallback": False,
                    "timezone": "UTC", "dedupe_in_other_timezone": False}
            if sb - sa:
                who = sorted(q for q, x in before.items() if x.get("sha") in (sb - sa))
                viol.append(dict(feat, kind="changed_data_removed",
                                 detail="%s changed (%s) while its transform program (`%s`, call %d) was running, after the program had read it; "
                                        "`%s` on the report then destroyed the only copy of the content of %s" % (
                                            changed[len(sc.tree):], case["mutation"], tr, case["at"], op, who)))
    return {"violations": viol, "states": states, "transitions": states, "evaluations": states, "nontrivial": reached,
            "outcome": "explored", "counters": {"changes_during_a_transform": 1},
            "sample": {"during_transform": case}}


def evaluate_during_dedupe(case):
    """`group` on an undisturbed tree; the dedupe command is stopped at a call before it first touches f, f is changed, the
    command continues. Whatever it then decides, no content present after the change may be lost."""
    viol = []
    states = 0
    reached = []
    with C.Scratch() as sc:
        f_abs = sc.path(case["f"]).decode()
        target = os.path.join(sc.root, "moved")

        def rebuild():
            C.rmtree(sc.tree)
            C.rmtree(target)
            os.makedirs(sc.tree)
            C.make_tree(sc.tree, SAME_DIR)
            # the directories are as old as the files (the tree is rebuilt for every position, after the report was made)
            for d in ("r/d", "r/e", "r"):
                os.utime(sc.path(d), (1_000_000_000, 1_000_000_000))
        rebuild()
        report = D.make_report(sc, [], ["r"])
        time.sleep(0.03)
        args = list(D.OPS[case["op"]]) + ([target] if case["op"] == "move" else [])
        env = {"RAYON_NUM_THREADS": "1"}
        rec = S.run_with_shim(sc, args, [sc.tree, target], "rm", stdin=report, env_extra=env)
        ev = rec["events"]
        touch = [i for i, e in enumerate(ev) if e.path == f_abs or e.path2 == f_abs]
        if not touch:
            raise C.MachineryError("the dedupe run never touches %s" % f_abs)
        first = touch[0]
        if case["tier"] == "quick":
            positions = sorted(set([0, first // 2, max(0, first - 1), first]))
        else:
            positions = list(range(first + 1))
        if case.get("only") is not None:
            positions = [case["only"]]
        for k in positions:
            rebuild()
            snap = {}

            initial = C.inventory(sc.tree)

            def change():
                snap["at_pause"] = C.inventory(sc.tree)
                mutate(f_abs, case["mutation"], sc)
                snap["before"] = C.inventory(sc.tree)
            res = S.run_with_shim(sc, args, [sc.tree, target], "rm", stdin=report, env_extra=env, mode="pause", at=k, on_pause=change)
            if not res["paused"]:
                raise C.MachineryError("the dedupe command did not pause at event %d" % k)
            before = snap["before"]
            after = C.inventory(sc.tree, target) if os.path.exists(target) else C.inventory(sc.tree)
            states += 1
            reached.append(["during_dedupe", case["f"], case["mutation"], case["op"], k])
            # what the command had already removed legitimately before the change is not in `before` any more
            # ... and what the command itself had created by then (a temporary file it is still filling: the
            # stop may fall between its creation and the copy / clone into it) is not the user's data: protected are
            # the contents the tree had before the command started and what the change itself wrote
            s0 = set(x["sha"] for x in initial.values() if x["type"] == "file")
            sb = set(x["sha"] for p, x in before.items() if x["type"] == "file"
                     and (x["sha"] in s0 or snap["at_pause"].get(p) != x))
            sa = set(x["sha"] for x in after.values() if x["type"] == "file")
            feat = {"mutation": case["mutation"], "phase": "during_the_dedupe_run", "op": case["op"],
                    "target_is_retained_member": case["f"].endswith("k1"), "isolate": False, "report_from_stdout_fallback": False,
                    "timezone": "UTC", "dedupe_in_other_timezone": False}
            if "panicked" in res["err"] or res["timeout"]:
                viol.append(dict(feat, kind="crash", detail=res["err"][-300:], replay_case=dict(case, only=k)))
            if sb - sa:
                who = sorted(p for p, x in before.items() if x.get("sha") in (sb - sa))
                viol.append(dict(feat, kind="changed_data_removed",
                                 detail="%s changed (%s) while `%s` was running - stopped at its event %d (%r), %d events before it first touches the file; "
                                        "the command then destroyed the only copy of the content of %s" % (
                                            case["f"], case["mutation"], case["op"], k, ev[k], first - k, who),
                                 replay_case=dict(case, only=k)))
    return {"violations": viol, "states": states, "transitions": states * 2, "evaluations": states, "nontrivial": reached,
            "outcome": "explored", "counters": {"changes_during_the_dedupe_run": states},
            "sample": {"during_dedupe": case["f"], "mutation": case["mutation"], "op": case["op"], "first_touch": first}}


def mutate(path, m, scratch):
    p = C.b(path)
    time.sleep(0.025)
    if m in ("rewrite_same_len", "rewrite_other_len", "append", "truncate"):
        old = C.read_file(p)
        if m == "rewrite_same_len":
            new = bytes((x + 1) % 256 for x in old)
        elif m == "rewrite_other_len":
            new = b"Z" * (len(old) + 7)
        elif m == "append":
            new = None
        else:
            new = None
        if m == "append":
            with open(p, "ab") as f:
                f.write(b"appended")
        elif m == "truncate":
            os.truncate(p, max(1, len(old) // 2))
        else:
            with open(p, "r+b") as f:
                f.write(new)
                f.truncate(len(new))
    elif m == "delete":
        os.unlink(p)
    elif m == "recreate_same":
        old = C.read_file(p)
        os.unlink(p)
        with open(p, "wb") as f:
            f.write(old)
    elif m == "recreate_other":
        n = os.path.getsize(p)
        os.unlink(p)
        with open(p, "wb") as f:
            f.write(b"N" * n)
    elif m == "to_directory":
        os.unlink(p)
        os.mkdir(p)
        with open(os.path.join(p, b"inner"), "wb") as f:
            f.write(b"inner file of the new directory")
    elif m == "to_dangling_symlink":
        os.unlink(p)
        os.symlink(b"/nonexistent/target", p)
    elif m == "to_symlink_fresh":
        n = os.path.getsize(p)
        os.unlink(p)
        fresh = os.path.join(C.b(scratch.tree), b"fresh_target")
        with open(fresh, "wb") as f:
            f.write(b"F" * n)
        os.symlink(fresh, p)
    elif m == "to_symlink_old":
        # replaced by a symlink to an OLD file of the same length and other content that lies outside the groups
        # (the path is no regular file any more; the link itself is new, what it points to is not)
        n = os.path.getsize(p)
        old = os.path.join(C.b(scratch.tree), b"old_target")
        if not os.path.exists(old):
            with open(old, "wb") as f:
                f.write(b"O" * n)
            os.utime(old, (1_000_000_000, 1_000_000_000))
        os.unlink(p)
        os.symlink(old, p)
    elif m == "to_fifo":
        # turned into a special file (a named pipe nobody writes to)
        os.unlink(p)
        os.mkfifo(p)
    elif m == "touch":
        os.utime(p, None)
    time.sleep(0.025)


def evaluate(case):
    if case.get("kind") == "during_dedupe":
        return evaluate_during_dedupe(case)
    if case.get("kind") == "during_transform":
        return evaluate_during_transform(case)
    tier = case.get("tier", "quick")
    viol = []
    states = 0
    transitions = 0
    reached = []
    with C.Scratch() as sc:
        f_abs = sc.path(case["f"]).decode()
        gargs, groots, _ = TREE_OPTS.get(case["tree"], ([], ["r"], None))
        args = ["group", "-t", "1"] + gargs + groots
        snap = os.path.join(sc.root, "snap")
        target = os.path.join(sc.root, "moved")

        def rebuild():
            C.rmtree(sc.tree)
            os.makedirs(sc.tree)
            C.make_tree(sc.tree, TREES[case["tree"]])
        tzenv = {"TZ": case["tz"]} if case.get("tz") else None
        tzenv_d = {"TZ": case["tz_dedupe"]} if case.get("tz_dedupe") else tzenv
        rebuild()
        rec = S.run_with_shim(sc, args, [sc.tree], "rc", env_extra=tzenv)
        rebuild()
        rec2 = S.run_with_shim(sc, args, [sc.tree], "rc", env_extra=tzenv)
        d = S.same_history(rec["events"], rec2["events"])
        if d:
            raise C.MachineryError("group history not deterministic: %s" % d)
        events = rec["events"]
        first = min(i for i, e in enumerate(events) if e.path == f_abs)
        last_access = max(i for i, e in enumerate(events) if e.path == f_abs)
        K = len(events)
        if tier == "quick":
            positions = sorted(set([first + 1, last_access + 1, K - 1]))
            positions = [("pause", k) for k in positions if k < K] + [("between", None)]
            ops = OPS_Q
        else:
            positions = [("pause", k) for k in range(first + 1, K)] + [("between", None)]
            ops = OPS_T
        if case["mutation"] == "to_fifo":
            # a file that becomes a named pipe WHILE `group` is reading makes `group` block in open() until somebody
            # writes to the pipe: nothing is removed, so the statement is not concerned (noted in DESIGN.md); the
            # dedupe commands, however, must cope with a pipe at a reported path
            positions = [("between", None)]
        if case["mutation"] == "rewrite_whole_second":
            positions = [("between", None)]
        if case["tree"] == "group70":
            positions = [("between", None)] if tier == "quick" else [("pause", last_access + 1), ("pause", K - 1), ("between", None)]
            if tier != "quick":
                ops = OPS + ["remove|n1", "link|newest", "move|nolock"]
        if case.get("only"):
            positions = [tuple(case["only"][0])]
            ops = [case["only"][1]]
        for kind, k in positions:
            rebuild()
            if kind == "pause":
                res = S.run_with_shim(sc, args, [sc.tree], "rc", mode="pause", at=k, env_extra=tzenv,
                                      on_pause=lambda: mutate(f_abs, case["mutation"], sc))
                if not res["paused"]:
                    raise C.MachineryError("group did not pause at event %d" % k)
                dd = S.same_history(events, res["events"], upto=min(k, len(res["events"])))
                if dd:
                    raise C.MachineryError("prefix diverged before event %d: %s" % (k, dd))
            elif case["mutation"] == "rewrite_whole_second":
                import re
                import datetime
                for attempt in range(8):
                    # start `group` at T.55 ... T.70
                    frac = time.time() % 1.0
                    time.sleep(((0.55 - frac) % 1.0) if not 0.55 <= frac <= 0.70 else 0)
                    res = S.run_with_shim(sc, args, [sc.tree], "rc", env_extra=tzenv)
                    m = re.search(rb"# Timestamp: (\d+-\d+-\d+ \d+:\d+:\d+)\.(\d+) \+0000", res["out"])
                    if res["rc"] == 0 and m and int(m.group(2)[:1]) >= 5:
                        break
                else:
                    raise C.MachineryError("could not start `group` in the second half of a second: %r" % res["out"][:200])
                t_whole = int(datetime.datetime.strptime(m.group(1).decode(), "%Y-%m-%d %H:%M:%S").replace(
                    tzinfo=datetime.timezone.utc).timestamp()) + 1
                time.sleep(max(0.0, t_whole + 0.05 - time.time()))
                old_bytes = C.read_file(f_abs)
                with open(f_abs, "r+b") as fh:
                    fh.write(bytes((x + 1) % 256 for x in old_bytes))
                os.utime(f_abs, (t_whole, t_whole))      # what such a file system records for a write during T+1
            else:
                res = S.run_with_shim(sc, args, [sc.tree], "rc", env_extra=tzenv)
                mutate(f_abs, case["mutation"], sc)
            transitions += len(res["events"])
            if case["tree"] == "pair_big":
                # the report cannot be written to /dev/full: an error exit without a report is fine
                if res["rc"] != 0 or not res["out"].strip():
                    reached.append([case["tree"], case["f"], case["mutation"], kind, k, "no_report_on_stdout"])
                    continue
            if res["rc"] != 0:
                # group itself may legitimately fail? It must not: an unreadable entry affects only itself (C15)
                viol.append({"kind": "group_failed", "mutation": case["mutation"], "phase": kind, "op": "group",
                             "detail": "rc=%s %s" % (res["rc"], res["err"][-300:])})
                continue
            report = res["out"]
            C.rmtree(snap)
            subprocess.run(["cp", "-a", sc.tree, snap], check=True)
            phase = "between_runs" if kind == "between" else (
                "before_last_access_of_f" if k <= last_access else "after_last_access_of_f")
            for op in ops:
                C.rmtree(sc.tree)
                C.rmtree(target)
                subprocess.run(["cp", "-a", snap, sc.tree], check=True)
                before = C.inventory(sc.tree)
                opname, _, optk = op.partition("|")
                r = D.run_dedupe(sc, opname, OPTSETS[optk], report, target=target, env_extra=tzenv_d)
                after = C.inventory(sc.tree, target) if os.path.exists(target) else C.inventory(sc.tree)
                states += 1
                reached.append([case["tree"], case["f"], case["mutation"], kind, k, op, case.get("tz", "UTC"), case.get("tz_dedupe", "same")])
                sb = set(x["sha"] for x in before.values() if x["type"] == "file")
                sa = set(x["sha"] for x in after.values() if x["type"] == "file")
                feat = {"mutation": case["mutation"], "phase": phase, "op": op,
                        "target_is_retained_member": case["f"].endswith("f1"), "isolate": case["tree"] == "isolate", "report_from_stdout_fallback": case["tree"] == "pair_big",
                        "timezone": case.get("tz", "UTC"), "dedupe_in_other_timezone": bool(case.get("tz_dedupe"))}
                rc_case = dict(case, only=[[kind, k], op])
                if "panicked" in r["err"] or r["timeout"]:
                    viol.append(dict(feat, kind="crash", detail=r["err"][-300:], replay_case=rc_case))
                if sb - sa:
                    who = sorted(p for p, x in before.items() if x.get("sha") in (sb - sa))
                    viol.append(dict(feat, kind="changed_data_removed",
                                     detail="tree %s, %s mutated (%s) at %s %s of %d events (last access of f at %d); `%s` on the report then "
                                            "destroyed the only copy of the content of %s; report header: %s" % (
                                                case["tree"], case["f"], case["mutation"], kind, k, K, last_access, op, who,
                                                report.decode("utf-8", "replace").split("\n")[1]),
                                     replay_case=rc_case))
                rep = D.report_groups(report)
                members = set(C.u(p) for g in rep.groups for p in g["paths"])
                for p, rec_b in before.items():
                    if p in members or rec_b["type"] == "dir" or p == f_abs or p.startswith(f_abs + "/"):
                        continue
                    a = after.get(p)
                    if a is None or (a["type"], a.get("sha"), a.get("target")) != (rec_b["type"], rec_b.get("sha"), rec_b.get("target")):
                        viol.append(dict(feat, kind="outsider_changed", detail="%s: %s -> %s" % (p, rec_b, a), replay_case=rc_case))
    return {"violations": viol, "states": states, "transitions": transitions, "evaluations": states, "nontrivial": reached,
            "outcome": "explored",
            "sample": {"tree": case["tree"], "f": case["f"], "mutation": case["mutation"], "events": K,
                       "first_access": first, "last_access": last_access}}


RULE += ' Since rounds 10-11 also: a rewrite that carries a whole-second time (file systems with 1 s granularity) after `group` started in the second half of a second; changes during the dedupe run compare only contents the tree had before the command started or that the change wrote.'


RULE += " Since round 12 also: one group of 70 files, the changed member being the first, the 16th, the 64th, the 65th, the 69th or the last of the report order."
