"""C13 Results are deterministic and independent of performance settings (shape S + I; engines E6 seams, E2)."""
import itertools
import math
import os

from .. import common as C
from .. import grouplab as G
from .. import shimlab as S

ID = "C13"
LEVEL = "model_checking"
RULE = ("(c) schedules: for a tree whose 5 (quick) / 6 (thorough) files all pass the prefix, suffix and content stages, ALL "
        "n! arrival orders at each collector seam of `group` (scan result, rehash#0 prefix, rehash#1 suffix, rehash#2 "
        "content; hook E6 first gathers what the collector would receive, then delivers it in the selected order), one "
        "seam at a time, plus {identity, reverse}^4 across the seams, and the same for a tree with hard links next to a copy under "
        "--rf-under 3 / --rf-over 2 / --rf-under 2 (all 5! orders per seam), for a class of five files whose names differ only in invalid UTF-8 bytes / letter case, and for --skip-content-hash (three stages); (a) every --threads spec name in {none, main, "
        "default, ssd} x (r,s) in {0,1,2,64}^2 and pairs main:x + default:y, 8 pool shapes on a file with 40 names (more hard links than a small pool has task permits) next to a copy under the ssd and unknown pins, and 8 large-pool specs x transforms using $IN / $OUT on a tree with equal base names in different directories; (b) every permutation of 3-4 roots and "
        "--stdin, --stdin together with --transform (fclones starts child processes that inherit its descriptors: both orders of 'child runs' / 'fclones signals the child' at every signal the run sends, by pausing the subject at the kill call), and overlapping roots (r, r/sub) in both orders x walking-pool sizes x {--depth 1/2, --hidden, -L}; (e) --cache cold / warm / warm again under transforms that keep, shorten and double the data: report body identical to the uncached one; (d) hash function x --max-prefix-size x --max-suffix-size x disk kind x cache, and a tree split over two devices (scratch fs + loop mount) with every pair of kinds in {ssd, hdd, unknown}^2 pinned per device. A state is one complete "
        "execution of the real binary under one schedule/configuration; transitions are the messages delivered at the "
        "seams. Invariant: report body (lengths, hashes, paths, order) byte-identical within (a)-(c); partition into "
        "groups identical within (d); every run ends within 120 s.")
ASSUMPTIONS = ["worker threads talk to each collector only through its channel and the collectors are sequential, so the "
               "order of delivery is the only schedule-dependent input of the report body; scheduling inside rayon / "
               "crossbeam scoped threads themselves is not enumerated (termination of the throttling protocol: C19)",
               "disk kind pinned by the verification hook"]

SEAM_TREE_5 = [
    {"p": "r/a1", "k": "file", "c": ["base", 70000, 1]}, {"p": "r/d/a2", "k": "file", "c": ["base", 70000, 1]},
    {"p": "r/e/a3", "k": "file", "c": ["base", 70000, 1]}, {"p": "r/d/b1", "k": "file", "c": ["flip", 70000, 1, 35000]},
    {"p": "r/e/b2", "k": "file", "c": ["flip", 70000, 1, 35000]},
]
SEAM_TREE_6 = SEAM_TREE_5 + [{"p": "r/c1", "k": "file", "c": ["flip", 70000, 1, 34000]}]
# hard links next to an independent copy, searched with --rf-under 3: the replica count must not depend on whether
# the two links of one file arrive next to each other
SEAM_TREE_LINKS = [
    {"p": "r/a", "k": "file", "c": ["base", 70000, 1]}, {"p": "r/l", "k": "hard", "to": "r/a"},
    {"p": "r/b", "k": "file", "c": ["base", 70000, 1]}, {"p": "r/m", "k": "file", "c": ["flip", 70000, 1, 35000]},
    {"p": "r/n", "k": "hard", "to": "r/m"},
]
MULTI = [
    {"p": "r1/a", "k": "file", "c": ["base", 4097, 1]}, {"p": "r2/a", "k": "file", "c": ["base", 4097, 1]},
    {"p": "r3/x/a", "k": "file", "c": ["base", 4097, 1]}, {"p": "r1/ah", "k": "hard", "to": "r1/a"},
    {"p": "r1/b", "k": "file", "c": ["base", 131073, 2]}, {"p": "r3/b", "k": "file", "c": ["base", 131073, 2]},
    {"p": "r2/c", "k": "file", "c": ["flip", 131073, 2, 131072]}, {"p": "r4/c", "k": "file", "c": ["flip", 131073, 2, 131072]},
    {"p": "r2/one", "k": "file", "c": ["lit", "1"]}, {"p": "r4/one", "k": "file", "c": ["lit", "1"]},
    {"p": "r4/u", "k": "file", "c": ["base", 16384, 7]}, {"p": "r1/u2", "k": "file", "c": ["flip", 16384, 7, 16383]},
    {"p": "r3/v", "k": "file", "c": ["base", 65536, 8]}, {"p": "r1/v", "k": "file", "c": ["base", 65536, 8]},
    {"p": "r2/w", "k": "file", "c": ["flip", 65536, 8, 0]},
    # between every --max-prefix-size used below and the HDD/unknown default prefix (16 KiB); equal up to the last byte
    {"p": "r4/m1", "k": "file", "c": ["base", 12000, 9]}, {"p": "r2/m2", "k": "file", "c": ["flip", 12000, 9, 11999]},
    {"p": "r3/m3", "k": "file", "c": ["base", 12000, 9]},
]
# one class of five files whose names differ only in bytes that are not valid UTF-8 (Latin-1 names on a UTF-8 system),
# in letter case, or in a directory name of that kind: any order computed from a lossy text form of the path ties them
SEAM_TREE_ODD = [
    {"p": "r/caf\udce9", "k": "file", "c": ["base", 70000, 1]}, {"p": "r/caf\udce8", "k": "file", "c": ["base", 70000, 1]},
    {"p": "r/d\udcff/x", "k": "file", "c": ["base", 70000, 1]}, {"p": "r/d\udcfe/x", "k": "file", "c": ["base", 70000, 1]},
    {"p": "r/Caf\udce9", "k": "file", "c": ["base", 70000, 1]},
]
# a 20 KiB file with 40 names and one independent copy
MANY_LINKS = [{"p": "r/orig", "k": "file", "c": ["base", 20000, 5]}] + \
    [{"p": "r/l/h%02d" % i, "k": "hard", "to": "r/orig"} for i in range(39)] + [{"p": "r/copy", "k": "file", "c": ["base", 20000, 5]}]
COLLIDE = [{"p": "r/ab/c", "k": "file", "c": ["base", 5000, 6]}, {"p": "r/a/bc", "k": "hard", "to": "r/ab/c"},
           {"p": "r/e/copy", "k": "file", "c": ["base", 5000, 6]}, {"p": "r/a/b/x", "k": "file", "c": ["base", 300, 7]},
           {"p": "r/ab/x", "k": "file", "c": ["base", 300, 7]}, {"p": "r/e/x2", "k": "file", "c": ["base", 300, 7]}]
SITES = ["scan", "rehash#0", "rehash#1", "rehash#2"]


def prepare(tier):
    S.prepare()


def cases(tier, seed):
    quick = tier == "quick"
    out = []
    tree = "seam5" if quick else "seam6"
    for site in SITES:
        out.append({"kind": "seam", "tree": tree, "site": site, "chunk": None})
    out.append({"kind": "cross_seam", "tree": tree})
    # the --transform pipeline has its own, single grouping stage
    for site in ("scan", "rehash#0"):
        out.append({"kind": "seam", "tree": "seam5", "site": site, "chunk": None, "args": ["--transform", "cat"],
                    "sites": ["scan", "rehash#0"]})
    # names that differ only in invalid UTF-8 bytes: the path order inside the group may not depend on arrival
    for site in (("scan", "rehash#2") if quick else SITES):
        out.append({"kind": "seam", "tree": "seamodd", "site": site, "chunk": None})
    # --skip-content-hash ends after the suffix stage: its report must be just as reproducible
    for site in (("rehash#1",) if quick else ("scan", "rehash#0", "rehash#1")):
        out.append({"kind": "seam", "tree": "seam5", "site": site, "chunk": None, "args": ["--skip-content-hash"],
                    "sites": ["scan", "rehash#0", "rehash#1"]})
    for extra in ((["--rf-under", "3"],) if quick else (["--rf-under", "3"], ["--rf-over", "2"], ["--rf-under", "2"])):
        for site in (("scan", "rehash#2") if quick else SITES):
            out.append({"kind": "seam", "tree": "seamlinks", "site": site, "chunk": None, "args": extra})
    vals = (0, 1, 2, 64)
    specs = []
    for name in ("", "main", "default", "ssd"):
        for r in vals:
            for s in vals:
                specs.append(["-t", (name + ":" if name else "") + "%d,%d" % (r, s)])
    for x in (1, 2, 64):
        for y in (1, 2, 64):
            specs.append(["-t", "main:%d" % x, "-t", "default:%d" % y])
    for t in ("multi", "seam5"):
        for ch in range(0, len(specs), 8):
            out.append({"kind": "threads", "tree": t, "specs": specs[ch:ch + 8]})
    # transforms working on private copies ($IN) / named pipes ($OUT): equal base names in different directories
    big = [["-t", "8"], ["-t", "64"], ["-t", "default:8,8"], ["-t", "main:1", "-t", "default:16,16"], ["-t", "1"],
           ["-t", "ssd:32,32"], ["-t", "default:2,64"], ["-t", "main:64", "-t", "default:64,1"]]
    for tr in (["--transform", "cat $IN"], ["--transform", "fcv-tr keep $IN $OUT"]):
        out.append({"kind": "threads", "tree": "multi", "specs": big, "args": tr, "repeat": 2})
    # one file with many names (more hard links than a small pool has task permits) next to a copy: every pool shape ends
    many = [["-t", "1"], ["-t", "2"], ["-t", "default:8,1"], ["-t", "main:1", "-t", "default:1,1"], [], ["-t", "default:1,8"],
            ["-t", "unknown:1,1"], ["-t", "64"]]
    out.append({"kind": "threads", "tree": "manylinks", "specs": many, "timeout": 30})
    out.append({"kind": "threads", "tree": "manylinks", "specs": many, "timeout": 30, "env": {"FCLONES_VERIF_DISK_KIND": "unknown"}})
    out.append({"kind": "roots", "tree": "multi"})
    # hard links / copies whose path components concatenate to the same bytes, under every order of the input paths
    out.append({"kind": "roots", "tree": "collide"})
    out.append({"kind": "roots", "tree": "collide", "args": ["-L"]})
    out.append({"kind": "overlap_big", "tree": "bigdir"})
    # overlapping input paths: the result may depend neither on their order nor on the size of the walking pool
    for extra in ([], ["--depth", "1"], ["--depth", "2"], ["--hidden"], ["-L"]):
        out.append({"kind": "overlap", "tree": "overlap", "extra": extra})
    # --stdin while fclones starts child processes (--transform): the two orders of (child runs, fclones signals it)
    for tr in (["--transform", "cat"], ["--transform", "head -c 1000000"], ["--transform", "cat $IN"],
               ["--transform", "fcv-tr keep - $OUT"]):
        out.append({"kind": "stdin_child", "tree": "multi", "args": tr})
    # cache x transform: a warm cache may change nothing, also when the transform changes the length of the data
    for tr in (["--transform", "head -c 1000"], ["--transform", "cat"], ["--transform", "fcv-tr double"]):
        out.append({"kind": "cache_transform", "tree": "multi", "args": tr})
    # a warm cache, then one file rewritten in place (same length) with a modification time that differs only in the
    # milliseconds / lies a second later / earlier: the partition with --cache equals the one without
    for shift_ms in (700, 1, 1000, -300):
        out.append({"kind": "cache_rewrite", "tree": "seam5", "shift_ms": shift_ms})
    # one tree spread over two devices (tmpfs scratch + loop-mounted ext4) whose kinds are pinned independently
    out.append({"kind": "mixed_devices", "tree": "two_devices"})
    hashes = ["metro", "blake3"] if quick else ["metro", "xxhash", "blake3", "sha256", "sha512", "sha3-256", "sha3-512"]
    cfgs = []
    for h in hashes:
        for d in ("ssd", "hdd", "unknown"):
            cfgs.append((["--hash-fn", h], d))
    for px in (None, "1", "8192", "1MiB"):
        for sx in (None, "1", "1MiB"):
            for d in (("ssd", "unknown") if quick else ("ssd", "unknown", "hdd")):
                a = []
                if px:
                    a += ["--max-prefix-size", px]
                if sx:
                    a += ["--max-suffix-size", sx]
                for cache in ((False,) if quick else (False, True)):
                    cfgs.append((a + (["--cache"] if cache else []), d))
    for t in ("multi", "seam5"):
        for ch in range(0, len(cfgs), 8):
            out.append({"kind": "config", "tree": t, "cfgs": cfgs[ch:ch + 8]})
    return out


OVERLAP = [
    {"p": "r/a1", "k": "file", "c": ["lit", "aaaa"]}, {"p": "r/sub/a2", "k": "file", "c": ["lit", "aaaa"]},
    {"p": "r/sub/y1", "k": "file", "c": ["lit", "yyyy"]}, {"p": "r/sub/y2", "k": "file", "c": ["lit", "yyyy"]},
    {"p": "r/sub/deep/z1", "k": "file", "c": ["lit", "zzzz"]}, {"p": "r/sub/deep/z2", "k": "file", "c": ["lit", "zzzz"]},
    {"p": "r/.gitignore", "k": "file", "c": ["lit", "deep/\n"]}, {"p": "r/other/z3", "k": "file", "c": ["lit", "zzzz"]},
]


# identical pairs split across the two devices (r1 on the scratch fs, r2 on the loop mount), sizes around every prefix /
# suffix threshold, plus near-duplicates that differ late
TWO_DEVICES = []
for i, L in enumerate((100, 4096, 4097, 12000, 16384, 16385, 20000, 65536, 70000)):
    TWO_DEVICES += [{"p": "r1/a%d" % i, "k": "file", "c": ["base", L, i + 1]}, {"p": "r2/b%d" % i, "k": "file", "c": ["base", L, i + 1]}]
    if L > 1:
        TWO_DEVICES.append({"p": "r2/n%d" % i, "k": "file", "c": ["flip", L, i + 1, L - 1]})


def tree_of(name):
    if name == "two_devices":
        return TWO_DEVICES
    if name == "bigdir":
        # more entries in one size class than any per-worker chunk of a parallel pass over them
        return [{"p": "r/d/f%04d" % i, "k": "file", "c": ["lit", "x"]} for i in range(1540)] + \
               [{"p": "r/e/g%d" % i, "k": "file", "c": ["lit", "y"]} for i in range(3)]
    return {"seam5": SEAM_TREE_5, "seam6": SEAM_TREE_6, "multi": MULTI, "seamlinks": SEAM_TREE_LINKS, "seamodd": SEAM_TREE_ODD, "manylinks": MANY_LINKS, "collide": COLLIDE, "overlap": OVERLAP}[name]


def roots_of(name):
    if name == "two_devices":
        return ["r1", "r2"]
    if name == "overlap":
        return ["r", "r/sub"]
    if name == "bigdir":
        return ["r", "r/d"]
    if name == "collide":
        return ["r/ab", "r/a", "r/e"]
    return ["r1", "r2", "r3", "r4"] if name == "multi" else ["r"]


RUN_TIMEOUT = [120]


def run(sc, args, env, stdin=b""):
    rc, out, err, to = C.fclones(["group", "--min", "0", "-f", "json"] + args, sc, env_extra=env, stdin=stdin, timeout=RUN_TIMEOUT[0])
    if to:
        return "hang", None
    if rc != 0:
        return "failed: " + err.decode("utf-8", "replace")[-300:], None
    rep = C.parse_json_report(out)
    return None, [(g["len"], g["hash"], [C.u(p) for p in g["paths"]]) for g in rep.groups]


def evaluate(case):
    if case["kind"] == "mixed_devices":
        if not C.can_loop_mount():
            return {"violations": [], "states": 0, "transitions": 1, "nontrivial": None, "outcome": "skipped_no_loop_mount"}
        with C.Scratch() as sc:
            os.makedirs(os.path.join(sc.tree, "r2"))
            with C.LoopMount(os.path.join(sc.tree, "r2")) as lm:
                return _evaluate(case, sc, os.path.join(sc.tree, "r2"))
    with C.Scratch() as sc:
        return _evaluate(case, sc, None)


def _evaluate(case, sc, loop_mp):
    viol = []
    states = 0
    transitions = 0
    keys = []
    if True:
        C.make_tree(sc.tree, tree_of(case["tree"]))
        roots = case.get("args", []) + case.get("extra", []) + roots_of(case["tree"])
        env0 = dict({"FCLONES_VERIF_DISK_KIND": "ssd"}, **case.get("env", {}))
        RUN_TIMEOUT[0] = case.get("timeout", 120)
        err, base = run(sc, roots, env0)
        if err == "hang":
            return {"violations": [{"kind": "hang", "what_varied": "nothing (plain run)",
                                    "detail": "`group %s` on tree %s did not finish within %d s (%s)" % (roots, case["tree"], RUN_TIMEOUT[0], env0)}],
                    "states": 1, "transitions": 1, "nontrivial": [[case["kind"], case["tree"], "baseline"]], "outcome": "hang"}
        if err:
            raise C.MachineryError("baseline run failed: %s" % err)

        def check(label, args, env, what, stdin=b"", partition_only=False):
            nonlocal states
            extra_feat = {}
            if what == "overlapping_roots":
                extra_feat = {"follow_links": "-L" in args, "ignore_file_above_inner_root": True,
                              "depth_set": "--depth" in args}
            e, body = run(sc, args, env, stdin)
            states += 1
            keys.append([case["kind"], case["tree"], label])
            if e == "hang":
                viol.append({"kind": "hang", "what_varied": what, "detail": "%s %s did not finish within %d s" % (args, env, RUN_TIMEOUT[0])})
                return
            if e:
                viol.append({"kind": "run_failed", "what_varied": what, "detail": "%s %s: %s" % (args, env, e)})
                return
            if partition_only:
                a = sorted((l, sorted(p)) for l, h, p in body)
                b2 = sorted((l, sorted(p)) for l, h, p in base)
                if a != b2:
                    viol.append({"kind": "partition_differs", "what_varied": what,
                                 "detail": "%s %s: %s instead of %s" % (args, env, a, b2)})
            elif body != base:
                viol.append({"kind": "body_differs", "what_varied": what, **extra_feat,
                             "detail": "%s %s: %s instead of %s" % (args, env, [(l, h[:8], [os.path.basename(x) for x in p]) for l, h, p in body],
                                                                     [(l, h[:8], [os.path.basename(x) for x in p]) for l, h, p in base])})

        if case["kind"] in ("seam", "cross_seam"):
            # learn how many messages each seam delivers
            site_log = os.path.join(sc.root, "sites.log")
            run(sc, roots, dict(env0, FCLONES_VERIF_SITE_LOG=site_log))
            counts = {}
            with open(site_log) as f:
                for line in f:
                    s, n = line.split()
                    counts[s] = int(n)
            if sorted(counts) != sorted(case.get("sites", SITES)):
                raise C.MachineryError("unexpected seam sites %s" % counts)
            # the permutation seam itself must not change the result: the run without any seam request is the baseline
            if case["kind"] == "seam":
                n = counts[case["site"]]
                if n < 4:
                    raise C.MachineryError("seam %s delivers only %d messages: vacuous" % (case["site"], n))
                for idx in range(math.factorial(n)):
                    check("%s:%s:%d" % (case["site"], " ".join(case.get("args", [])), idx), roots, dict(env0, FCLONES_VERIF_PERM="%s:%d" % (case["site"], idx)),
                          "arrival_order@" + case["site"])
                    transitions += n
            else:
                for combo in itertools.product((0, 1), repeat=4):
                    perm = ",".join("%s:%d" % (s, (math.factorial(counts[s]) - 1) if c else 0) for s, c in zip(SITES, combo))
                    check("cross:" + perm, roots, dict(env0, FCLONES_VERIF_PERM=perm), "arrival_order_across_seams")
                    transitions += sum(counts.values())
        elif case["kind"] == "threads":
            for spec in case["specs"]:
                for rep in range(case.get("repeat", 1)):
                    check("threads:%s:%s:%d" % (" ".join(case.get("args", [])), " ".join(spec), rep), spec + roots, env0, "threads")
                    transitions += 1
        elif case["kind"] == "roots":
            xa = case.get("args", [])
            rr = roots_of(case["tree"])
            roots = rr
            for perm in itertools.permutations(rr):
                check("roots:" + " ".join(xa + list(perm)), xa + list(perm), env0, "root_order")
                transitions += 1
                if case["tree"] != "multi":
                    check("roots:-t 1 " + " ".join(xa + list(perm)), ["-t", "1"] + xa + list(perm), env0, "root_order")
                    transitions += 1
            for perm in list(itertools.permutations(rr))[::5]:
                check("stdin:" + " ".join(xa + list(perm)), xa + ["--stdin"], env0, "stdin", stdin=("\n".join(perm) + "\n").encode())
                transitions += 1
            # input paths that are not valid UTF-8, contain blanks or a trailing blank: as arguments and on stdin
            odd = [sc.path("r5 x").decode(), os.fsdecode(sc.path("r6") + b"\xff"), sc.path("r7 ").decode()]
            for i, d in enumerate(odd):
                os.makedirs(C.b(d), exist_ok=True)
                with open(os.path.join(C.b(d), b"odd%d" % i), "wb") as f:
                    f.write(b"content of the odd roots")
            e_odd, odd_base = run(sc, roots + odd, env0)
            if e_odd:
                viol.append({"kind": "run_failed", "what_varied": "odd_root_names", "detail": "roots %r as arguments: %s" % (odd, e_odd)})
            else:
                saved, base = base, odd_base
                check("stdin:odd_root_names", ["--stdin"], env0, "stdin", stdin=b"\n".join(C.b(x) for x in roots + odd) + b"\n")
                base = saved
                transitions += 1
        elif case["kind"] == "stdin_child":
            base_roots = roots_of(case["tree"])
            data = ("\n".join(base_roots) + "\n").encode()
            args = ["group", "--min", "0", "-f", "json"] + case["args"] + ["--stdin"]

            def judge(label, res):
                nonlocal states
                states += 1
                keys.append([case["kind"], case["tree"], label])
                feat = {"what_varied": "stdin_vs_arguments", "transform": True, "schedule": label.split(":")[1]}
                if res["timeout"]:
                    viol.append(dict(feat, kind="hang", detail="%s did not finish" % args))
                    return
                try:
                    rep = C.parse_json_report(res["out"]) if res["rc"] == 0 else None
                except Exception as e:
                    rep = None
                    res = dict(res, err=res["err"] + " / report does not parse: %s; stdout starts with %r" % (e, res["out"][:80]))
                if rep is None:
                    viol.append(dict(feat, kind="run_failed", detail="%s (%s): rc=%s %s" % (args, label, res["rc"], res["err"][-300:])))
                    return
                body = [(g["len"], g["hash"], [C.u(p) for p in g["paths"]]) for g in rep.groups]
                if body != base:
                    viol.append(dict(feat, kind="body_differs",
                                     detail="%s with the input paths on stdin (%s): %d groups instead of %d: %s" % (
                                         args, label, len(body), len(base), [(l, [os.path.basename(x) for x in p]) for l, h, p in body][:4])))

            rec = S.run_with_shim(sc, args, [sc.tree], "p", stdin=data, env_extra=env0)
            judge("stdin_child:free:" + " ".join(case["args"]), rec)
            transitions += 1
            import time
            for k, ev in enumerate(rec["events"]):
                if ev.call != "kill":
                    continue
                # the child gets 150 ms before the signal is sent: it runs until it blocks or exits
                res = S.run_with_shim(sc, args, [sc.tree], "p", stdin=data, env_extra=env0, mode="pause", at=k,
                                      on_pause=lambda: time.sleep(0.15))
                if not res["paused"]:
                    raise C.MachineryError("did not pause at event %d" % k)
                judge("stdin_child:child_first@%d:%s" % (k, " ".join(case["args"])), res)
                transitions += 1
        elif case["kind"] == "overlap":
            base_roots = roots_of(case["tree"])
            for order in (base_roots, list(reversed(base_roots)), base_roots + ["r/sub/deep"], ["r/sub/deep"] + base_roots):
                if order != base_roots and set(order) != set(base_roots):
                    # a different SET of roots is a different question: compare such orders among themselves only
                    continue
                for spec in ([], ["-t", "1"], ["-t", "main:1"], ["-t", "2"], ["-t", "main:64"]):
                    check("overlap:%s:%s:%s" % (" ".join(case["extra"]), " ".join(order), " ".join(spec)),
                          spec + case["extra"] + order, env0, "overlapping_roots")
                    transitions += 1
        elif case["kind"] == "overlap_big":
            for order in (["r", "r/d"], ["r/d", "r"], ["r", "r"], ["r/d", "r/e", "r"]):
                for spec in (["-t", "1"], ["-t", "2"], ["-t", "3"], ["-t", "6"], ["-t", "main:2"], ["-t", "main:5"], []):
                    n0 = len(viol)
                    check("overlap_big:%s:%s" % (" ".join(order), " ".join(spec)), spec + order, env0, "overlapping_roots_many_entries")
                    for v in viol[n0:]:
                        v["detail"] = v["detail"][:300] + " ... " + v["detail"][-300:]
                    transitions += 1
            for l, h, paths in base:
                if len(paths) != len(set(paths)):
                    viol.append({"kind": "path_listed_twice", "what_varied": "nothing (plain run)",
                                 "detail": "group of length %d lists %d paths, %d distinct" % (l, len(paths), len(set(paths)))})
        elif case["kind"] == "cache_rewrite":
            t0 = 1_650_000_000_100_000_000
            for e in tree_of(case["tree"]):
                os.utime(sc.path(e["p"]), ns=(t0, t0))
            e0, _ = run(sc, ["--cache"] + roots, env0)
            if e0:
                raise C.MachineryError("first cached run failed: %s" % e0)
            victim, donor = sc.path("r/a1"), sc.path("r/d/b1")
            data = C.read_file(donor)
            with open(victim, "r+b") as f:
                f.write(data)
            t1 = t0 + case["shift_ms"] * 1_000_000
            os.utime(victim, ns=(t1, t1))
            e1, fresh = run(sc, roots, env0)
            if e1:
                raise C.MachineryError("uncached run failed: %s" % e1)
            saved, base = base, fresh
            check("cache_rewrite:%d" % case["shift_ms"], ["--cache"] + roots, env0, "cache_after_rewrite_%+dms" % case["shift_ms"],
                  partition_only=True)
            base = saved
            transitions += 2
        elif case["kind"] == "cache_transform":
            # (the baseline above ran the same transform without the cache)
            for h in ("metro", "blake3"):
                e0, hb = run(sc, ["--hash-fn", h] + roots, env0)
                if e0:
                    raise C.MachineryError("uncached transform run failed: %s" % e0)
                saved, base = base, hb
                for rep in range(3):
                    check("cache_transform:%s:%s:%d" % (" ".join(case["args"]), h, rep), ["--hash-fn", h, "--cache"] + roots, env0,
                          "cache_with_transform")
                    transitions += 1
                base = saved
        elif case["kind"] == "mixed_devices":
            # the scratch file system is found through the mount point '/', the loop mount through its own
            kinds = ("ssd", "hdd", "unknown")
            for k1 in kinds:
                for k2 in kinds:
                    for extra in ([], ["--max-prefix-size", "8192"], ["--hash-fn", "blake3"]):
                        env = {"FCLONES_VERIF_DISK_KIND": k1, "FCLONES_VERIF_DISK_KIND_AT": "%s=%s" % (k2, loop_mp)}
                        check("mixed:%s:%s:%s" % (k1, k2, " ".join(extra)), extra + roots, env, "device_kinds", partition_only=True)
                        transitions += 1
        elif case["kind"] == "config":
            for args, disk in case["cfgs"]:
                rep = 2 if "--cache" in args else 1
                for _ in range(rep):
                    check("config:%s:%s" % (" ".join(args), disk), args + roots, {"FCLONES_VERIF_DISK_KIND": disk},
                          "config", partition_only=True)
                    transitions += 1
    return {"violations": viol, "states": states, "transitions": max(transitions, 1), "evaluations": states,
            "nontrivial": keys, "outcome": case["kind"],
            "sample": {"case": {k: v for k, v in case.items() if k not in ("specs", "cfgs")}, "baseline_groups": len(base)}}


def finish(stats, tier):
    out = []
    from .. import common as C2
    if C2.can_loop_mount() and not stats["outcomes"].get("mixed_devices"):
        out.append("no mixed_devices case ran")
    for k in ("seam", "cross_seam", "threads", "roots", "config", "overlap", "overlap_big", "stdin_child", "cache_transform"):
        if not stats["outcomes"].get(k):
            out.append("no %s case ran" % k)
    return out


RULE += ' Since rounds 10-11 also: same-length rewrite between cached runs (time shifts 1 ms ... 1 s); 1540 equal files under overlapping roots x seven pool sizes.'
