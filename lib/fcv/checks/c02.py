"""C02 Deduplication never destroys the last copy of any content (shape I, engine E2)."""
import os

from .. import common as C
from .. import dedupelab as D

ID = "C02"
LEVEL = "exploration"
RULE = ("trees with 1-3 groups (sizes 2-4), hard-link sets, symlinks reported with -S (relative / absolute targets, "
        "same / other directory), two roots with --isolate in both orders, decoy files of equal length at neighbouring "
        "names, hostile file names (leading/trailing whitespace of several kinds, quotes, backslash, newline, CR, tab, "
        "non-UTF-8, '#', '~', '$'); x report format {text, JSON} x op {remove, link, link --soft, dedupe, move} x "
        "-n {unset, 2} x --priority {unset, bottom, newest} x {no pattern, --name, --keep-name}; `move` also into a target "
        "directory that already holds files at the destination paths; one tree with a member rewritten (same length, new mtime) WHILE an earlier `group --cache [--transform cat]` run works on it (paused before and after every call that touches it), the report coming from a second undisturbed cached run; a dropped -S symlink whose target is not moved along; two trees also with a member rewritten (same length) between `group` and the dedupe command, both run under TZ in {UTC, JST-9, PST8}; sequences of two commands on one report (link / link --soft first, then remove / link / link --soft / move with --priority top / bottom, reports with and without -H); real runs. Oracle: "
        "inventory before/after (lstat + sha256, never through fclones): no content digest disappears from regular "
        "files (tree + move target); >= max(1,n) replicas per group completely untouched; nothing outside the reported "
        "groups changes; link/clone ops keep every path readable with the same bytes; move keeps the bytes under the "
        "target. Non-trivial = run that changed the tree; distinct by (tree, format, op, options).")
ASSUMPTIONS = ["--match-links together with --symbolic-links is excluded, as the statement says",
               "dedupe (reflink) runs against file systems without reflink support: with ioctl(FICLONE) emulated by the shim "
               "(copy + truncate, so that the clone code path really replaces data) and, for one option set, natively "
               "(the command must then leave everything untouched)",
               "directory mtimes are not compared (removing an entry legitimately changes them)"]

CONTENT_LEN = 24


def lit(tag):
    return ["lit", (tag + "-" * CONTENT_LEN)[:CONTENT_LEN]]


HOSTILE = ["x ", " x", "x ", " x", "x\t", "x\n", "x\r", "a'b", 'a"b', "a\\b", "#x", "~x", "f[12]", "x{1,2}", "$x", "x$(y)", "a b c",
           "\udcffx", "x\udcff", "ż€", "-n", "x;y", "x&y", "*", "?", "[x]", "x\\", "'", "x\ny z", " ", "x  ", "\\n",
           # text that means something to a formatting / templating step on the way to the printed line
           "a{}b", "{}", "%s", "{0}", "$1", "\\0"]

# names at the limit of a directory entry (255 bytes on every file system here): a temporary sibling `name.<24 chars>`
# does not fit next to the longest ones
LONG_NAMES = ["L" * 230, "L" * 231, "L" * 254, "L" * 255, "\u20ac" * 85, "\u20ac" * 76 + "abc"]

def structural_trees():
    t = {}
    t["one_group"] = (["r1", "r2"], [], [
        {"p": "r1/d/a", "k": "file", "c": lit("X")}, {"p": "r1/d/b", "k": "file", "c": lit("X")},
        {"p": "r2/e/c", "k": "file", "c": lit("X")}, {"p": "r1/d/o", "k": "file", "c": lit("outsider")},
        {"p": "r2/e/u", "k": "file", "c": lit("unique2")}])
    t["three_groups"] = (["r1", "r2"], [], [
        {"p": "r1/a1", "k": "file", "c": lit("A")}, {"p": "r2/a2", "k": "file", "c": lit("A")},
        {"p": "r1/b1", "k": "file", "c": ["base", 5000, 1]}, {"p": "r1/s/b2", "k": "file", "c": ["base", 5000, 1]},
        {"p": "r2/b3", "k": "file", "c": ["base", 5000, 1]}, {"p": "r2/t/b4", "k": "file", "c": ["base", 5000, 1]},
        {"p": "r1/c1", "k": "file", "c": ["base", 70000, 2]}, {"p": "r2/c2", "k": "file", "c": ["base", 70000, 2]},
        {"p": "r1/c3", "k": "file", "c": ["base", 70000, 2]}, {"p": "r1/odd", "k": "file", "c": ["flip", 70000, 2, 69999]}])
    t["hard_links"] = (["r1", "r2"], [], [
        {"p": "r1/a", "k": "file", "c": lit("H")}, {"p": "r1/a2", "k": "hard", "to": "r1/a"},
        {"p": "r2/b", "k": "file", "c": lit("H")}, {"p": "r2/b2", "k": "hard", "to": "r2/b"},
        {"p": "r2/c", "k": "file", "c": lit("H")}, {"p": "r1/o", "k": "file", "c": lit("outsider")}])
    t["all_hard_links"] = (["r1"], ["-H"], [
        {"p": "r1/a", "k": "file", "c": lit("H")}, {"p": "r1/a2", "k": "hard", "to": "r1/a"},
        {"p": "r1/s/a3", "k": "hard", "to": "r1/a"}])
    t["symlink_rel"] = (["d1", "d2", "d3"], ["-S"], [
        {"p": "d2/A", "k": "file", "c": lit("S")}, {"p": "d1/L", "k": "sym", "to": "../d2/A"},
        {"p": "d3/sub/B", "k": "file", "c": lit("S")}, {"p": "d3/o", "k": "file", "c": lit("outsider")}])
    t["symlink_abs"] = (["d1", "d2", "d3"], ["-S"], [
        {"p": "d2/A", "k": "file", "c": lit("S")}, {"p": "d1/L", "k": "sym", "to": "@TREE@/d2/A"},
        {"p": "d3/sub/B", "k": "file", "c": lit("S")}])
    t["symlink_same_dir"] = (["d1"], ["-S"], [
        {"p": "d1/A", "k": "file", "c": lit("S")}, {"p": "d1/L", "k": "sym", "to": "A"},
        {"p": "d1/B", "k": "file", "c": lit("S")}, {"p": "d1/z/C", "k": "file", "c": lit("S")}])
    t["symlink_only_copy"] = (["d1", "d2"], ["-S"], [
        {"p": "d2/A", "k": "file", "c": lit("S")}, {"p": "d1/L", "k": "sym", "to": "../d2/A"},
        {"p": "d1/L2", "k": "sym", "to": "../d2/A"}])
    # the symlink and its target form a sub-group that is NOT the first one: both are dropped
    t["symlink_dropped"] = (["d1", "d2", "d3"], ["-S"], [
        {"p": "d1/A0", "k": "file", "c": lit("S")}, {"p": "d2/T", "k": "file", "c": lit("S")},
        {"p": "d3/L", "k": "sym", "to": "../d2/T"}, {"p": "d3/M", "k": "sym", "to": "@TREE@/d2/T"}])
    # the retained sub-group consists of symlinks only (their target lies outside the scanned roots)
    t["symlink_retained_outside"] = (["d1", "d2"], ["-S"], [
        {"p": "d1/L", "k": "sym", "to": "../out/T"}, {"p": "out/T", "k": "file", "c": lit("S")},
        {"p": "d2/sub/B", "k": "file", "c": lit("S")}, {"p": "d2/C", "k": "file", "c": lit("S")}])
    # two freshly mounted tmpfs instances below one root: the k-th files of both have the same inode number - and
    # here the same length but other bytes; plus a genuine pair (skipped when mounting is not permitted)
    t["two_tmpfs"] = (["r"], [], [
        {"p": "r/m1", "k": "tmpfs"}, {"p": "r/m2", "k": "tmpfs"},
        {"p": "r/m1/one", "k": "file", "c": ["base", 20000, 1]}, {"p": "r/m2/one", "k": "file", "c": ["flip", 20000, 1, 15000]},
        {"p": "r/m1/two", "k": "file", "c": ["base", 300, 2]}, {"p": "r/m2/two", "k": "file", "c": ["base", 300, 2]}])
    # a group that spans two file systems (hard links and clones cannot cross them: `link` and `dedupe` work per
    # device), next to groups that live on one (skipped when mounting is not permitted)
    t["cross_device"] = (["r"], [], [
        {"p": "r/m2", "k": "tmpfs"},
        {"p": "r/a/x1", "k": "file", "c": ["base", 900, 1]}, {"p": "r/a/x2", "k": "file", "c": ["base", 900, 1]},
        {"p": "r/m2/x3", "k": "file", "c": ["base", 900, 1]}, {"p": "r/m2/x4", "k": "file", "c": ["base", 900, 1]},
        {"p": "r/m2/x5", "k": "file", "c": ["base", 900, 1]},
        {"p": "r/a/y1", "k": "file", "c": ["base", 500, 2]}, {"p": "r/a/y2", "k": "file", "c": ["base", 500, 2]},
        {"p": "r/m2/z1", "k": "file", "c": ["base", 300, 3]}, {"p": "r/m2/z2", "k": "file", "c": ["base", 300, 3]}])
    # one directory visible at two places (bind mount): the two paths of a file are ONE directory entry - not hard
    # links of each other, although they share device and inode - so removing "one of them" removes the file
    t["bind_mount"] = (["d1", "d2"], ["-H"], [
        {"p": "d1/f", "k": "file", "c": lit("B")}, {"p": "d1/u", "k": "file", "c": lit("unique-b")},
        {"p": "d2", "k": "bind", "to": "d1"}])
    t["bind_mount_plain"] = (["d1", "d2"], [], t["bind_mount"][2])
    t["bind_mount_copy"] = (["d1", "d2", "d3"], ["-H"], t["bind_mount"][2] + [{"p": "d3/g", "k": "file", "c": lit("B")}])
    # a transform program that is killed by a signal on some (different) files before it writes anything: such files
    # have no transformed content - they are not duplicates of each other
    t["transform_dies"] = (["r"], ["--transform", "fcv-tr dieon"], [
        {"p": "r/a/good1", "k": "file", "c": lit("well-formed")}, {"p": "r/b/good2", "k": "file", "c": lit("well-formed")},
        {"p": "r/a/bad1", "k": "file", "c": lit("CORRUPT one")}, {"p": "r/b/bad2", "k": "file", "c": lit("CORRUPT two, longer")},
        {"p": "r/b/bad3", "k": "file", "c": lit("CORRUPT 333")}])
    t["transform_dies_in"] = (["r"], ["--transform", "fcv-tr dieon $IN"], t["transform_dies"][2])
    # overlapping / repeated input paths given on standard input, every path counted separately (--match-links):
    # a file reached twice is still ONE path - it may not be reported as a duplicate of itself
    t["stdin_overlap"] = (["r1", "r1/d", "r1"], ["-H"], [
        {"p": "r1/d/a", "k": "file", "c": lit("X")}, {"p": "r1/d/b", "k": "file", "c": lit("X")},
        {"p": "r1/d/u", "k": "file", "c": lit("unique-1")}, {"p": "r1/e/v", "k": "file", "c": lit("unique-2")}])
    # a DROPPED symlink whose (relative) target lies outside the scanned roots and is therefore not moved along
    t["symlink_dropped_outside"] = (["d1", "d2"], ["-S"], [
        {"p": "d1/A", "k": "file", "c": lit("S")}, {"p": "d2/x/L", "k": "sym", "to": "../../out/T"},
        {"p": "out/T", "k": "file", "c": lit("S")}, {"p": "d2/M", "k": "sym", "to": "@TREE@/out/T"}])
    # files between an explicit --max-prefix-size and the default prefix of a non-SSD device (16 KiB), equal up to the
    # last byte: wrong groups from `group` would make the dedupe commands destroy content
    t["prefix_window"] = (["r1", "r2"], ["--max-prefix-size", "4096"], [
        {"p": "r1/a", "k": "file", "c": ["base", 12000, 1]}, {"p": "r2/b", "k": "file", "c": ["base", 12000, 1]},
        {"p": "r1/c", "k": "file", "c": ["flip", 12000, 1, 11999]}, {"p": "r2/d", "k": "file", "c": ["flip", 12000, 1, 11999]},
        {"p": "r2/e", "k": "file", "c": ["flip", 12000, 1, 11000]}])
    t["isolate"] = (["r1", "r2"], ["--isolate"], [
        {"p": "r1/a", "k": "file", "c": lit("I")}, {"p": "r1/s/a2", "k": "file", "c": lit("I")},
        {"p": "r2/b", "k": "file", "c": lit("I")}, {"p": "r2/b2", "k": "file", "c": lit("I")},
        {"p": "r1/o", "k": "file", "c": lit("outsider")}])
    t["isolate_rev"] = (["r2", "r1"], ["--isolate"], t["isolate"][2])
    t["isolate_symlink"] = (["r2", "r1"], ["--isolate", "-S"], [
        {"p": "r1/A", "k": "file", "c": lit("I")}, {"p": "r2/L", "k": "sym", "to": "../r1/A"}])
    t["isolate_symlink_rev"] = (["r1", "r2"], ["--isolate", "-S"], t["isolate_symlink"][2])
    # the retained root holds the content only through a symlink into the other root, which also has a plain copy
    t["isolate_symlink_copy"] = (["r2", "r1"], ["--isolate", "-S"], [
        {"p": "r1/A", "k": "file", "c": lit("I")}, {"p": "r1/B", "k": "file", "c": lit("I")},
        {"p": "r2/L", "k": "sym", "to": "../r1/A"}])
    t["isolate_symlink_copy_rev"] = (["r1", "r2"], ["--isolate", "-S"], t["isolate_symlink_copy"][2])
    # root names where one is a string prefix (not a path prefix) of the other
    t["isolate_prefix_names"] = (["r", "r2"], ["--isolate"], [
        {"p": "r/a", "k": "file", "c": lit("I")}, {"p": "r/s/a2", "k": "file", "c": lit("I")},
        {"p": "r2/b", "k": "file", "c": lit("I")}, {"p": "r2/b2", "k": "file", "c": lit("I")}])
    t["isolate_prefix_names_rev"] = (["r2", "r"], ["--isolate"], t["isolate_prefix_names"][2])
    t["isolate_hardlink"] = (["r2", "r1"], ["--isolate"], [
        {"p": "r1/A", "k": "file", "c": lit("I")}, {"p": "r2/H", "k": "hard", "to": "r1/A"}])
    return t


def hostile_tree(name):
    entries = [{"p": "d/" + name, "k": "file", "c": lit("N")}, {"p": "d2/" + name, "k": "file", "c": lit("N")},
               {"p": "d2/plain", "k": "file", "c": lit("N")}]
    near = set([name.strip(), name.strip() + "x", name.rstrip(), name.lstrip(), name.replace("\\", ""), name + " "])
    # names that the hostile name would match / expand to if a shell saw it unquoted
    import re
    near.add(re.sub(r"\[(.)[^\]]*\]", r"\1", name))
    near.add(name.replace("?", "q"))
    near.add(name.replace("*", "zz"))
    m = re.search(r"\{([^{},]*),([^{},]*)\}", name)
    if m:
        near.add(name[:m.start()] + m.group(1) + name[m.end():])
        near.add(name[:m.start()] + m.group(2) + name[m.end():])
    for i, nn in enumerate(sorted(near)):
        if nn and nn != name and "/" not in nn and nn not in (".", "..") and len(C.b(nn)) <= 255:
            entries.append({"p": "d/" + nn, "k": "file", "c": lit("decoy%d" % i)})
    return (["d", "d2"], [], entries)


def prepare(tier):
    C.build_hooks()
    C.build_shim()


OPTSETS = []
for n in (None, 2):
    for prio in (None, "bottom", "newest"):
        for pat in (None, "name", "keep"):
            OPTSETS.append((n, prio, pat))


def cases(tier, seed):
    quick = tier == "quick"
    out = []
    trees = [("s:" + k, v) for k, v in structural_trees().items()]
    names = HOSTILE[:14] if quick else HOSTILE
    trees += [("n:%d" % i, hostile_tree(n)) for i, n in enumerate(names)]
    trees += [("long:%d" % len(C.b(n)) + ("" if n[0] == "L" else "mb"), hostile_tree(n)) for n in LONG_NAMES]
    idx = 0
    for tname, (roots, gargs, entries) in trees:
        for fmt in ("default", "json"):
            for op in ("remove", "link", "softlink", "dedupe", "move"):
                for oi, (n, prio, pat) in enumerate(OPTSETS):
                    idx += 1
                    if quick and (idx % 9) and not (n is None and prio is None and pat is None and fmt == "default"):
                        continue
                    out.append({"tree": tname, "roots": roots, "gargs": gargs, "entries": entries, "fmt": fmt, "op": op,
                                "n": n, "prio": prio, "pat": pat})
                    if op == "dedupe" and n is None and prio is None and pat is None:
                        out.append({"tree": tname, "roots": roots, "gargs": gargs, "entries": entries, "fmt": fmt,
                                    "op": op, "n": n, "prio": prio, "pat": pat, "native": True})
                    if op == "move" and (idx % 3 == 0 or (n is None and prio is None and pat is None)):
                        # the target directory already holds files at the paths the moved files would get
                        # (e.g. a second `move` into the same archive): they are outsiders with unique content
                        out.append({"tree": tname, "roots": roots, "gargs": gargs, "entries": entries, "fmt": fmt,
                                    "op": op, "n": n, "prio": prio, "pat": pat, "prepop": True})
    # a member of a reported group is rewritten (same length, new bytes) between `group` and the dedupe command, both
    # running in the same time zone - UTC, east and west of it: whatever the commands decide, no content may be lost
    st = structural_trees()
    for tname in ("one_group", "three_groups"):
        roots, gargs, entries = st[tname]
        for fmt in ("default", "json"):
            for op in ("remove", "link", "softlink", "move"):
                for tz in (None, "JST-9", "PST8"):
                    out.append({"tree": "s:" + tname, "roots": roots, "gargs": gargs, "entries": entries, "fmt": fmt,
                                "op": op, "n": None, "prio": None, "pat": None, "stale": True, "tz": tz})
    # the same report used twice: a first command has already replaced files by links, a second command follows with
    # other priorities (the report is stale by then: the paths are links younger than the report)
    for tname, g2 in (("one_group", ["-H"]), ("one_group", []), ("three_groups", ["-H"]), ("hard_links", ["-H"])):
        if tname not in st:
            continue
        roots, gargs, entries = st[tname]
        for fmt in ("default", "json"):
            for pre in ("softlink", "link"):
                for op, prio in (("remove", "top"), ("remove", "bottom"), ("link", "top"), ("softlink", "top"), ("move", "top")):
                    out.append({"tree": "s:" + tname, "roots": roots, "gargs": gargs + g2, "entries": entries, "fmt": fmt,
                                "op": op, "n": None, "prio": prio, "pat": None, "pre": pre})
    # a file is rewritten (same length) WHILE a first `group --cache [--transform cat]` run is working on it - at every
    # call of that run that touches the file, just before and just after it; a second, undisturbed `group --cache` run
    # then writes the report the dedupe command acts on: what the first run left in the cache may not cost any content
    for op in ("remove", "link", "move"):
        for tr in ([], ["--transform", "cat"]):
            out.append({"kind": "cache_race", "op": op, "tr": tr, "tree": "cache_race", "fmt": "default"})
            # ... and rewritten BETWEEN two cached runs, the new modification time in the same second as the old one
            # (other milliseconds), one second later, or earlier
            for shift_ms in (700, 1, 1000, -300):
                out.append({"kind": "cache_race", "op": op, "tr": tr, "tree": "cache_race", "fmt": "default", "between_ms": shift_ms})
    return out


def evaluate_cache_race(case):
    from .. import shimlab as S
    viol = []
    feat = {"op": case["op"], "report_format": "default", "isolate": False, "symbolic_links": False, "victim_name_class": "plain",
            "rewritten_during_an_earlier_cached_run": True, "transform": bool(case["tr"])}
    L = 70000
    tree = [{"p": "r/a", "k": "file", "c": ["base", L, 1]}, {"p": "r/b", "k": "file", "c": ["base", L, 1]},
            {"p": "r/o", "k": "file", "c": lit("outsider")}]
    changed_any = False
    with C.Scratch() as sc, C.Scratch() as fast:
        gargs = ["group", "--min", "0", "--cache", "-t", "1"] + case["tr"] + ["r"]
        target = os.path.join(sc.root, "moved")
        victim = sc.path("r/b").decode()

        def fresh(n):
            C.rmtree(sc.tree)
            C.rmtree(target)
            os.makedirs(sc.tree)
            C.make_tree(sc.tree, tree)
            env = {"FCLONES_VERIF_DISK_KIND": "ssd", "XDG_CACHE_HOME": os.path.join(fast.root, "cache%d" % n)}
            os.makedirs(env["XDG_CACHE_HOME"])
            return env

        def rewrite():
            data = C.content(["flip", L, 1, L // 2])
            with open(victim, "r+b") as f:
                f.write(data)
            t = 1_700_000_000_000_000_000
            os.utime(victim, ns=(t, t))

        env = fresh(0)
        rec = S.run_with_shim(sc, gargs, [sc.tree], "r", env_extra=env)
        if rec["rc"] != 0:
            raise C.MachineryError("group failed: %s" % rec["err"][-300:])
        ev = rec["events"]
        touch = [i for i, e in enumerate(ev) if e.path == victim]
        positions = sorted(set(touch + [i + 1 for i in touch if i + 1 < len(ev)]))
        if case.get("between_ms") is not None:
            positions = [None]
            feat = dict(feat, rewritten_during_an_earlier_cached_run=False, rewritten_between_cached_runs_ms=case["between_ms"])
        for n, k in enumerate(positions):
            env = fresh(n + 1)
            if k is None:
                t0 = 1_650_000_000_100_000_000          # ...:00.100
                for q in ("r/a", "r/b"):
                    os.utime(sc.path(q), ns=(t0, t0))
                rc0, _, err0, to0 = C.fclones(gargs, sc, env_extra=env)
                if rc0 != 0:
                    raise C.MachineryError("first cached run failed: %s" % err0[-300:])
                rewrite()
                t1 = t0 + case["between_ms"] * 1_000_000
                os.utime(victim, ns=(t1, t1))
                ev = [None]
                k = 0
            else:
                res = S.run_with_shim(sc, gargs, [sc.tree], "r", mode="pause", at=k, env_extra=env, on_pause=rewrite)
                if not res["paused"]:
                    raise C.MachineryError("group did not pause at event %d" % k)
            rc, report, err, to = C.fclones(gargs, sc, env_extra=env)
            if rc != 0 or to:
                raise C.MachineryError("second group run failed: %s" % err[-300:])
            before = C.inventory(sc.tree)
            r = D.run_dedupe(sc, case["op"], [], report, target=target)
            after = C.inventory(sc.tree, target) if os.path.exists(target) else C.inventory(sc.tree)
            changed_any = changed_any or bool(C.inv_diff(before, {k2: v for k2, v in after.items() if not k2.startswith(target)}))
            lost = set(x["sha"] for x in before.values() if x["type"] == "file") - set(x["sha"] for x in after.values() if x["type"] == "file")
            if lost:
                viol.append(dict(feat, kind="content_lost", retained_is_symlink=False,
                                 detail="r/b rewritten (same length, new mtime) at event %d (%r) of a first `%s`; the report of a second, undisturbed run "
                                        "lists %s; `%s` then destroyed the only copy of %s" % (
                                            k, ev[k], " ".join(gargs), [[os.path.basename(C.u(p)) for p in g["paths"]] for g in D.report_groups(report).groups],
                                            case["op"], [p for p, x in before.items() if x.get("sha") in lost])))
    return {"violations": viol, "nontrivial": ["cache_race", case["op"], bool(case["tr"])], "outcome": "cache_race",
            "counters": {"rewrites_during_a_cached_run": len(positions)},
            "sample": {"cache_race": case["op"], "transform": case["tr"], "positions": len(positions)}}


def name_class(name):
    if any(ord(c) >= 0xdc80 and ord(c) <= 0xdcff for c in name):
        return "non_utf8"
    if any(ord(c) < 32 for c in name):
        return "control"
    if name != name.rstrip():
        return "trailing_ws"
    if name != name.lstrip():
        return "leading_ws"
    return "plain"


def evaluate(case):
    if case.get("kind") == "cache_race":
        return evaluate_cache_race(case)
    viol = []
    symlinks = "-S" in case["gargs"]
    isolate = "--isolate" in case["gargs"]
    feat = {"op": case["op"], "report_format": case["fmt"], "isolate": isolate, "symbolic_links": symlinks,
            "victim_name_class": name_class(case["entries"][0]["p"].split("/", 1)[1]) if case["tree"].startswith("n:") else "plain"}
    if case["tree"] in ("s:two_tmpfs", "s:cross_device", "s:bind_mount", "s:bind_mount_plain", "s:bind_mount_copy"):
        from . import c09
        if not c09.can_mount():
            return {"violations": [], "nontrivial": None, "outcome": "skipped_no_mount"}
    with C.Scratch() as sc:
        entries = [dict(e, to=e["to"].replace("@TREE@", sc.tree)) if e["k"] == "sym" else e for e in case["entries"]]
        C.make_tree(sc.tree, entries)
        target = os.path.join(sc.root, "moved")
        tzenv = {"TZ": case["tz"]} if case.get("tz") else None
        genv = dict(tzenv or {})
        if case["tree"].startswith("s:transform_dies"):
            genv["FCV_TR_FAIL_PREFIX"] = "CORRUPT"
        if case["tree"] == "s:prefix_window":
            genv["FCLONES_VERIF_DISK_KIND"] = "unknown"
        report = D.make_report(sc, ["--min", "0"] + case["gargs"], case["roots"], fmt=case["fmt"], env_extra=genv or None,
                               stdin_roots=case["tree"].endswith("stdin_overlap"))
        rep = D.report_groups(report)
        members = set()
        for g in rep.groups:
            members.update(C.u(p) for p in g["paths"])
        if case.get("pre"):
            import time
            time.sleep(0.03)
            rp = D.run_dedupe(sc, case["pre"], [], report, target=target)
            if rp["rc"] != 0:
                raise C.MachineryError("first command of the sequence failed: %s" % rp["err"][-300:])
            time.sleep(0.03)
            feat = dict(feat, second_command_on_same_report=case["pre"])
        if case.get("stale"):
            import time
            time.sleep(0.03)
            victim = rep.groups[0]["paths"][-1]
            old_bytes = C.read_file(victim)
            with open(victim, "r+b") as f:
                f.write(bytes((x + 1) % 256 for x in old_bytes))
            time.sleep(0.03)
            feat = dict(feat, stale_report=True, timezone=case.get("tz") or "UTC")
        dargs = []
        if case["n"]:
            dargs += ["-n", str(case["n"])]
        if case["prio"]:
            dargs += ["--priority", case["prio"]]
        if case["pat"] == "name":
            dargs += ["--name", "[ab]*"]
        elif case["pat"] == "keep":
            dargs += ["--keep-name", "[abA]*"]
        if case.get("prepop"):
            k = 0
            for g in rep.groups:
                for p in g["paths"]:
                    tp = C.b(target) + p
                    os.makedirs(os.path.dirname(tp), exist_ok=True)
                    with open(tp, "wb") as f:
                        f.write(b"archived earlier, unique content %d" % k)
                    k += 1
        before = C.inventory(sc.tree, target) if os.path.exists(target) else C.inventory(sc.tree)
        # readable content of every path before (through links)
        content_before = {}
        for p, r in before.items():
            if r["type"] in ("file", "sym"):
                try:
                    content_before[p] = C.sha(C.read_file(C.b(p)))
                except OSError:
                    pass
        env_extra = dict(tzenv) if tzenv else None
        if case["op"] == "dedupe" and not case.get("native"):
            # no reflink file system here: let the shim emulate ioctl(FICLONE) so that the clone path really runs
            env_extra = {"LD_PRELOAD": os.path.join(C.BUILD, "fcshim.so"), "FCSHIM_ROOT": sc.tree,
                         "FCSHIM_CLASSES": "-", "FCSHIM_EMULATE_CLONE": "1"}
        r = D.run_dedupe(sc, case["op"], dargs, report, target=target, env_extra=env_extra)
        after = C.inventory(sc.tree, target) if os.path.exists(target) else C.inventory(sc.tree)
        if r["timeout"] or "panicked" in r["err"]:
            viol.append(dict(feat, kind="crash", detail="%s %s: %s" % (case["op"], dargs, r["err"][-300:])))
        # (a) no content lost
        sha_before = set(x["sha"] for x in before.values() if x["type"] == "file")
        sha_after = set(x["sha"] for x in after.values() if x["type"] == "file")
        lost = sha_before - sha_after
        if lost:
            who = [p for p, x in before.items() if x.get("sha") in lost]
            retained_is_symlink = symlinks and any(x["type"] == "sym" for p, x in before.items() if p in members)
            viol.append(dict(feat, kind="content_lost", retained_is_symlink=retained_is_symlink,
                             detail="content of %s no longer stored in any regular file after `%s %s` (group args %s roots %s); stderr: %s"
                                    % (who, case["op"], dargs, case["gargs"], case["roots"], r["err"][-200:])))
        # (b) replicas untouched
        n_keep = max(1, case["n"] or 1)
        for g in rep.groups:
            paths = [C.u(p) for p in g["paths"] if C.u(p) in before]
            replicas = {}
            for p in paths:
                rec = before[p]
                if "-H" in case["gargs"]:
                    replicas.setdefault(p, []).append(p)      # --match-links: every path is a replica
                    continue
                if isolate:
                    roots_abs = [sc.path(r).decode() for r in case["roots"]]
                    ri = [i for i, r in enumerate(roots_abs) if p.startswith(r + "/")]
                    replicas.setdefault(("root", ri[0] if ri else p), []).append(p)   # --isolate: one replica per root
                    continue
                key = (rec["dev"], rec["ino"]) if rec["type"] == "file" else ("sym", rec.get("target"))
                if rec["type"] == "sym":
                    # replica of a reported symlink = the file it points to
                    tp = os.path.normpath(os.path.join(os.path.dirname(p), rec["target"]))
                    if tp in before and before[tp]["type"] == "file":
                        key = (before[tp]["dev"], before[tp]["ino"])
                replicas.setdefault(key, []).append(p)
            untouched = 0
            for key, ps in replicas.items():
                if all(p in after and {k: v for k, v in after[p].items() if k != "nlink"} ==
                       {k: v for k, v in before[p].items() if k != "nlink"} for p in ps):
                    untouched += 1
            need = min(n_keep, len(replicas))
            if untouched < need:
                viol.append(dict(feat, kind="kept_replica_changed",
                                 detail="group %s: %d replica(s) untouched, %d required; `%s %s`" % (
                                     paths, untouched, need, case["op"], dargs)))
        # (c) outsiders unchanged
        for p, rec in before.items():
            if p in members or rec["type"] == "dir":
                continue
            a = after.get(p)
            if a is None or {k: v for k, v in a.items() if k != "nlink"} != {k: v for k, v in rec.items() if k != "nlink"}:
                viol.append(dict(feat, kind="outsider_changed", detail="%r not in any reported group: %s -> %s; `%s %s` fmt %s" % (
                    p, rec, a, case["op"], dargs, case["fmt"])))
        # (d) link/clone ops keep every path readable
        if case["op"] in ("link", "softlink", "dedupe"):
            for p, h in content_before.items():
                try:
                    now = C.sha(C.read_file(C.b(p)))
                except OSError as e:
                    now = "unreadable: %s" % e
                if now != h:
                    retained_is_symlink = symlinks
                    viol.append(dict(feat, kind="path_unreadable", retained_is_symlink=retained_is_symlink,
                                     detail="%r read %s before, now %s; `%s %s` group args %s" % (p, h, now, case["op"], dargs, case["gargs"])))
        # (e) move: bytes under the target
        if case["op"] == "move":
            for p, rec in before.items():
                if rec["type"] == "file" and p not in after and not p.startswith(target):
                    tp = target + p
                    a = after.get(tp)
                    if a is None or a.get("sha") != rec["sha"]:
                        viol.append(dict(feat, kind="moved_file_missing", detail="%r not found with the same bytes at %r" % (p, tp)))
                if rec["type"] == "sym" and p in members and p not in after and p in content_before and not p.startswith(target):
                    # a reported symlink (-S) that was moved: the bytes it gave access to must be readable under DIR
                    tp = target + p
                    try:
                        now = C.sha(C.read_file(C.b(tp)))
                    except OSError as e:
                        now = "unreadable: %s" % e
                    if now != content_before[p]:
                        viol.append(dict(feat, kind="moved_link_unreadable", link_target_relative=not rec.get("target", "").startswith("/"),
                                         detail="the reported symbolic link %r (-> %s) was moved to %r, where it reads: %s" % (
                                             p, rec.get("target"), tp, now)))
        changed = bool(C.inv_diff({k: v for k, v in before.items() if not k.startswith(target)},
                                  {k: v for k, v in after.items() if not k.startswith(target)}))
    return {"violations": viol, "nontrivial": [case["tree"], case["fmt"], case["op"], case["n"], case["prio"], case["pat"], case.get("prepop"), case.get("native")] if changed else None,
            "outcome": "changed" if changed else "unchanged",
            "sample": {"tree": case["tree"], "op": case["op"], "dedupe_args": dargs, "group_args": case["gargs"], "fmt": case["fmt"]}}


def finish(stats, tier):
    out = []
    if not stats["outcomes"].get("changed"):
        out.append("no run changed the tree")
    return out


RULE += ' Since rounds 10-11 also: a group spanning two file systems; a directory bind-mounted at a second place (with and without --match-links, with a genuine copy); a transform program killed by a signal; same-length rewrites between two cached runs with times 1 ms ... 1 s apart.'
