"""C19 The task/open-file semaphore is safe and live under all interleavings (shape S; loom DPOR + shuttle DFS
on the real semaphore.rs)."""
import json
import os
import re

from .. import common as C
from .. import shimlab as S

ID = "C19"
LEVEL = "model_checking"
RULE = ("every interleaving (loom: DPOR, unbounded or preemption-bounded as listed per configuration; shuttle: plain "
        "DFS, scheduler-chosen wake-ups) of T threads doing P acquire/release pairs on the real Semaphore with N "
        "permits and C spurious wake-all steps; modes: local guard, owned guard released by another thread, raw "
        "acquire/release, and the dispatcher/worker throttling protocol of rehash(). A state is one complete "
        "execution; transitions are semaphore operations executed. Invariants: holders <= permits, no deadlock, "
        "permit count restored. Call-site conformance (binds the protocol model to group.rs): the real `group` runs "
        "with RLIMIT_NOFILE reported as 100 (70, 150 in thorough) by the interposer while the real limit stays large (also: soft 100 / hard 4096 with setrlimit refused, so that the soft limit stays in force), pools of 200-300 threads (and pool sizes given as 0 = number of cores), pinned disk kind ssd / hdd / unknown (the latter two run the extents stage, whose FIEMAP calls all fail on tmpfs), 300 small / 120 three-stage "
        "files, every read delayed by 20 ms (the schedule that maximises overlap); a monitor counts descriptors open "
        "on scanned files: never more than the reported limit, the run ends, every duplicate pair is reported. These "
        "runs are single executions (not exhaustive); they are counted as one state each.")
ASSUMPTIONS = ["loom wakes condvar waiters FIFO; nondeterministic choice of the woken waiter comes from shuttle",
               "memory orderings weaker than what Mutex/Condvar give are not used by the subject",
               "std::sync::Arc is not instrumented (it carries no synchronisation the property depends on)"]
RECHECK = True

LOOM = os.path.join(C.BUILD, "loom", "release", "fcv-loom")
SHUTTLE = os.path.join(C.BUILD, "shuttle", "release", "fcv-shuttle")


def prepare(tier):
    S.prepare()
    C.build_harness("loom", "--cfg fclones_verif_loom")
    C.build_harness("shuttle", "--cfg fclones_verif_shuttle")


def _cfg(engine, mode, t, p, n, c, bound="none"):
    return {"engine": engine, "mode": mode, "t": t, "p": p, "n": n, "c": c, "bound": bound}


def cases(tier, seed):
    q = []
    # ---- loom, unbounded DPOR, two threads
    for mode in ("local", "owned", "raw"):
        for n in (0, 1, 2):
            for c in (0, 1):
                q.append(_cfg("loom", mode, 2, 1, n, c))
    for mode in ("local", "raw"):
        for n in (1, 2):
            q.append(_cfg("loom", mode, 2, 2, n, 0))
    q.append(_cfg("loom", "local", 2, 2, 1, 1))
    q.append(_cfg("loom", "local", 2, 3, 1, 0))
    q.append(_cfg("loom", "owned", 2, 2, 1, 0, 3))
    q.append(_cfg("loom", "owned", 2, 2, 2, 1, 2))
    # ---- loom, three and four threads
    q.append(_cfg("loom", "local", 3, 1, 1, 0))
    q.append(_cfg("loom", "local", 3, 1, 2, 0, 3))
    q.append(_cfg("loom", "local", 3, 2, 1, 0, 2))
    q.append(_cfg("loom", "owned", 3, 1, 1, 1, 2))
    q.append(_cfg("loom", "local", 4, 1, 1, 0, 2))
    q.append(_cfg("loom", "owned", 4, 1, 2, 0, 2))
    # ---- loom, throttling protocol (tasks, open-file permits, throttle permits, chaos)
    for (t, p, n, c, b) in ((2, 1, 1, 0, "none"), (2, 1, 1, 1, "none"), (3, 1, 1, 0, 3), (3, 1, 2, 0, 3),
                            (3, 2, 2, 0, 2), (4, 1, 2, 0, 2), (3, 1, 2, 1, 2)):
        q.append(_cfg("loom", "protocol", t, p, n, c, b))
    # ---- shuttle, plain DFS
    for mode in ("local", "owned", "raw"):
        for n in (1, 2):
            for c in (0, 1):
                q.append(_cfg("shuttle", mode, 2, 1, n, c))
    q.append(_cfg("shuttle", "local", 2, 1, 0, 0))
    q += [_cfg("loom", "owned", 2, 2, 1, 0), _cfg("loom", "local", 3, 1, 2, 0), _cfg("loom", "local", 3, 2, 1, 0, 3),
          _cfg("loom", "owned", 4, 1, 1, 0, 2), _cfg("loom", "raw", 2, 2, 2, 1)]
    # ---- the real call sites: `group` under a small reported descriptor limit, large pools, slow reads
    for tree in ("small300", "big120"):
        for threads in (["-t", "300"], ["-t", "default:300"], ["-t", "main:8", "-t", "default:200,200"]):
            for tr in ([], ["--transform", "cat"]):
                if tr and (tree == "big120" or threads[1] != "300"):
                    continue
                q.append({"engine": "e2e", "tree": tree, "threads": threads, "extra": tr, "nofile": 100})
    # the same under the HDD / unknown pin: the "fetching extents" stage runs (and fails for every file on tmpfs, which
    # has no FIEMAP), and the hashing pools differ
    for disk in ("hdd", "unknown"):
        q.append({"engine": "e2e", "tree": "small300", "threads": ["-t", "300"], "extra": [], "nofile": 100, "disk": disk})
        q.append({"engine": "e2e", "tree": "big120", "threads": ["-t", "default:200,200"], "extra": [], "nofile": 100, "disk": disk})
    # soft limit 100, hard limit 4096: raising the soft limit succeeds (budget 4091, nothing to see) or is refused
    # (EPERM: seccomp / container) - then the budget must follow the soft limit that stays in force
    q.append({"engine": "e2e", "tree": "small300", "threads": ["-t", "300"], "extra": [], "nofile": 100, "hard": 4096,
              "setrlimit_errno": 1})
    q.append({"engine": "e2e", "tree": "big120", "threads": ["-t", "default:200,200"], "extra": [], "nofile": 100, "hard": 4096,
              "setrlimit_errno": 1})
    # pool sizes given as 0 ("as many threads as cores"): the throttling semaphores must still get permits
    for threads, disk in ((["-t", "0"], "ssd"), (["-t", "default:0,2"], "ssd"), (["-t", "unknown:0,1"], "unknown"), (["-t", "main:0"], "ssd"),
                          (["-t", "0,0"], "hdd")):
        q.append({"engine": "e2e", "tree": "small300", "threads": threads, "extra": [], "nofile": 100, "disk": disk, "timeout": 90,
                  "budget_need_not_fill": True})
    # one file with MANY hard links (more names than the task throttle has permits: 8 per thread) next to a copy of it:
    # a task is one file, however many names it has - the run must end, every name must be listed
    for links, threads, disk in ((9, ["-t", "1"], "ssd"), (17, ["-t", "2"], "ssd"), (40, ["-t", "1"], "hdd"), (9, [], "unknown"),
                                 (130, ["-t", "default:1,1"], "ssd"), (33, ["-t", "1"], "ssd")):
        for extra in ([], ["--match-links"]):
            q.append({"engine": "e2e", "tree": "links%d" % links, "threads": threads, "extra": extra, "nofile": 100, "disk": disk,
                      "timeout": 60, "budget_need_not_fill": True})
    if tier == "quick":
        return q
    th = list(q)
    for nofile in (70, 150):
        th.append({"engine": "e2e", "tree": "small300", "threads": ["-t", "300"], "extra": [], "nofile": nofile})
    th += [
        _cfg("loom", "owned", 2, 2, 2, 0), _cfg("loom", "local", 2, 2, 0, 1),
        _cfg("loom", "local", 2, 3, 2, 0), _cfg("loom", "local", 2, 3, 2, 1),
        _cfg("loom", "owned", 3, 1, 1, 0), _cfg("loom", "local", 3, 2, 2, 1, 3),
        _cfg("loom", "owned", 3, 2, 1, 0, 3), _cfg("loom", "owned", 3, 2, 1, 1, 2),
        _cfg("loom", "local", 4, 1, 2, 1, 2), _cfg("loom", "owned", 4, 1, 1, 1, 2),
        _cfg("loom", "raw", 3, 1, 0, 1, 3),
        _cfg("loom", "protocol", 4, 2, 2, 1, 2), _cfg("loom", "protocol", 3, 1, 2, 1, 3),
        _cfg("shuttle", "local", 2, 2, 1, 0), _cfg("shuttle", "local", 2, 2, 2, 0),
        _cfg("shuttle", "local", 2, 1, 0, 1),
    ]
    return th


def evaluate_e2e(case):
    """Binds the protocol model to the real call sites: `fclones group` runs with RLIMIT_NOFILE reported as `nofile`
    (the real limit stays large, so an over-admission shows as a count, not as EMFILE), hashing pools far larger than
    that, and every read of a scanned file delayed by 20 ms so that tasks pile up with their file open. Invariants:
    the run ends; at no time more descriptors than the reported limit are open on scanned files; the report is
    complete (every duplicate pair found, nothing dropped)."""
    n = 300 if case["tree"] == "small300" else 120
    size = 5000 if case["tree"] == "small300" else 70000
    links = int(case["tree"][5:]) if case["tree"].startswith("links") else 0
    viol = []
    with C.Scratch() as sc:
        tree = []
        if links:
            # f000 with `links` names in all, f001 a copy of it; two more pairs
            n, size = 6, 5000
            for i in range(n):
                tree.append({"p": "r/d%d/f%03d" % (i % 7, i), "k": "file", "c": ["base", size, i // 2 + 1]})
            for j in range(1, links):
                tree.append({"p": "r/d%d/f000_l%03d" % (j % 7, j), "k": "hard", "to": "r/d0/f000"})
        for i in range(0 if links else n):
            tree.append({"p": "r/d%d/f%03d" % (i % 7, i), "k": "file", "c": ["base", size, i // 2 + 1]})
        C.make_tree(sc.tree, tree)
        args = ["group", "--min", "0", "-f", "json"] + case["threads"] + case["extra"] + ["r"]
        env = {"FCSHIM_FAKE_NOFILE": str(case["nofile"]), "FCSHIM_READ_DELAY_US": "20000", "FCLONES_VERIF_DISK_KIND": case.get("disk", "ssd")}
        if case.get("hard"):
            env["FCSHIM_FAKE_NOFILE_HARD"] = str(case["hard"])
        if case.get("setrlimit_errno"):
            env["FCSHIM_SETRLIMIT_ERRNO"] = str(case["setrlimit_errno"])
        res = S.run_with_shim(sc, args, [sc.tree], "r", env_extra=env, timeout=case.get("timeout", 300))
        feat = {"mode": "call_sites", "engine": "e2e", "transform": bool(case["extra"])}
        ctx = "`fclones %s` with RLIMIT_NOFILE reported as %d, %d files of %d bytes, reads delayed" % (
            " ".join(args), case["nofile"], n, size)
        maxopen = int(res["marks"].get("MAXOPEN", -1))
        opens = sum(1 for e in res["events"] if e.call == "open")
        if res["timeout"]:
            viol.append(dict(feat, kind="hang", detail=ctx + ": did not finish within %d s" % case.get("timeout", 300)))
        elif res["rc"] != 0:
            viol.append(dict(feat, kind="run_failed", detail="%s: rc=%s %s" % (ctx, res["rc"], res["err"][-300:])))
        else:
            if maxopen < 0:
                raise C.MachineryError("shim did not report #MAXOPEN")
            if maxopen > case["nofile"]:
                viol.append(dict(feat, kind="open_file_budget_exceeded",
                                 detail="%s: %d descriptors were open on scanned files at the same time" % (ctx, maxopen)))
            rep = C.parse_json_report(res["out"])
            got = sorted(sorted(os.path.basename(C.u(p)) for p in g["paths"]) for g in rep.groups)
            exp = sorted(["f%03d" % i, "f%03d" % (i + 1)] for i in range(0, n, 2))
            if links:
                exp[0] = sorted(exp[0] + ["f000_l%03d" % j for j in range(1, links)])
            if got != exp:
                viol.append(dict(feat, kind="files_dropped", detail="%s: %d of %d pairs reported; stderr %s" % (
                    ctx, len(got), len(exp), res["err"][-200:])))
    contended = maxopen >= min(case["nofile"] - 5, 64) - 1 or (case.get("budget_need_not_fill") and maxopen > 0)
    return {"violations": viol, "states": 1, "transitions": max(opens, 1), "evaluations": 1,
            "nontrivial": [["e2e", case["tree"], " ".join(case["threads"] + case["extra"]), case["nofile"], case.get("disk", "ssd"), case.get("hard"), case.get("setrlimit_errno")]] if contended else None,
            "outcome": "e2e_budget_reached" if contended else "e2e_budget_not_reached",
            "counters": {"e2e_max_open": maxopen, "e2e_runs": 1},
            "sample": {"case": case, "max_open": maxopen, "opens": opens}}


def evaluate(case):
    if case["engine"] == "e2e":
        return evaluate_e2e(case)
    exe = LOOM if case["engine"] == "loom" else SHUTTLE
    argv = [exe, case["mode"], str(case["t"]), str(case["p"]), str(case["n"]), str(case["c"])]
    if case["engine"] == "loom":
        argv.append(str(case["bound"]))
    cap = int(os.environ.get("FCV_C19_CAP", "3000"))
    rc, out, err, to = C.run(argv, cwd="/", env={"PATH": "/usr/bin:/bin", "FCV_WALL_CAP": str(cap),
                                                 "RUST_BACKTRACE": "0"}, timeout=cap + 60)
    err_s = err.decode("utf-8", "replace")
    if to:
        raise C.MachineryError("configuration %s did not finish within %d s" % (case, cap))
    if rc == 0:
        line = out.decode().strip().splitlines()[-1]
        j = json.loads(line)
        if not j.get("complete"):
            raise C.MachineryError("exploration of %s stopped at the wall cap: not exhaustive" % case)
        return {"violations": [], "states": j["executions"], "transitions": j["ops"], "evaluations": j["executions"],
                "nontrivial": [[case["engine"], case["mode"], case["t"], case["p"], case["n"], case["c"], "contended"]]
                if j["contended_executions"] else None,
                "outcome": "contended" if j["contended_executions"] else "uncontended",
                "counters": {"distinct_acquisition_orders": j["distinct_acquisition_orders"],
                             "contended_executions": j["contended_executions"]},
                "sample": j}
    # failure: classify strictly, anything else is a machinery problem
    m = re.search(r"FCV-FAIL iteration=(\d+)", err_s)
    it = int(m.group(1)) if m else None
    if "FCV over-admission" in err_s:
        kind = "over_admission"
    elif "FCV permit-leak" in err_s:
        kind = "permit_leak"
    elif "deadlock" in err_s.lower():
        kind = "deadlock"
    else:
        raise C.MachineryError("engine failure for %s (rc=%s): %s" % (case, rc, err_s[-1500:]))
    msg = [l for l in err_s.splitlines() if "FCV " in l or "deadlock" in l.lower()]
    return {"violations": [{"kind": kind, "mode": case["mode"], "engine": case["engine"],
                            "detail": "configuration %s failed at execution %s: %s" % (case, it, (msg or [""])[0][:300])}],
            "states": it or 1, "transitions": it or 1, "outcome": kind}


def finish(stats, tier):
    out = []
    if not stats["outcomes"].get("contended"):
        out.append("no configuration ever had a thread waiting for a permit")
    if not stats["outcomes"].get("e2e_budget_reached"):
        out.append("no end-to-end run ever filled the open-file budget (the call-site check was vacuous)")
    return out
