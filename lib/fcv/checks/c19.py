"""C19 The task/open-file semaphore is safe and live under all interleavings (shape S; loom DPOR + shuttle DFS
on the real semaphore.rs)."""
import json
import os
import re

from .. import common as C

ID = "C19"
LEVEL = "model_checking"
RULE = ("every interleaving (loom: DPOR, unbounded or preemption-bounded as listed per configuration; shuttle: plain "
        "DFS, scheduler-chosen wake-ups) of T threads doing P acquire/release pairs on the real Semaphore with N "
        "permits and C spurious wake-all steps; modes: local guard, owned guard released by another thread, raw "
        "acquire/release, and the dispatcher/worker throttling protocol of rehash(). A state is one complete "
        "execution; transitions are semaphore operations executed. Invariants: holders <= permits, no deadlock, "
        "permit count restored.")
ASSUMPTIONS = ["loom wakes condvar waiters FIFO; nondeterministic choice of the woken waiter comes from shuttle",
               "memory orderings weaker than what Mutex/Condvar give are not used by the subject",
               "std::sync::Arc is not instrumented (it carries no synchronisation the property depends on)"]
RECHECK = True

LOOM = os.path.join(C.BUILD, "loom", "release", "fcv-loom")
SHUTTLE = os.path.join(C.BUILD, "shuttle", "release", "fcv-shuttle")


def prepare(tier):
    C.build_harness("loom", "--cfg fclones_verif_loom")
    C.build_harness("shuttle", "--cfg fclones_verif_shuttle")


def _cfg(engine, mode, t, p, n, c, bound="none"):
    return {"engine": engine, "mode": mode, "t": t, "p": p, "n": n, "c": c, "bound": bound}


def cases(tier, seed):
    q = []
    # ---- loom, unbounded DPOR, two threads
    for mode in ("local", "owned", "raw"):
        for n in (0, 1, 2):
            for c in (0, 1):
                q.append(_cfg("loom", mode, 2, 1, n, c))
    for mode in ("local", "raw"):
        for n in (1, 2):
            q.append(_cfg("loom", mode, 2, 2, n, 0))
    q.append(_cfg("loom", "local", 2, 2, 1, 1))
    q.append(_cfg("loom", "local", 2, 3, 1, 0))
    q.append(_cfg("loom", "owned", 2, 2, 1, 0, 3))
    q.append(_cfg("loom", "owned", 2, 2, 2, 1, 2))
    # ---- loom, three and four threads
    q.append(_cfg("loom", "local", 3, 1, 1, 0))
    q.append(_cfg("loom", "local", 3, 1, 2, 0, 3))
    q.append(_cfg("loom", "local", 3, 2, 1, 0, 2))
    q.append(_cfg("loom", "owned", 3, 1, 1, 1, 2))
    q.append(_cfg("loom", "local", 4, 1, 1, 0, 2))
    q.append(_cfg("loom", "owned", 4, 1, 2, 0, 2))
    # ---- loom, throttling protocol (tasks, open-file permits, throttle permits, chaos)
    for (t, p, n, c, b) in ((2, 1, 1, 0, "none"), (2, 1, 1, 1, "none"), (3, 1, 1, 0, 3), (3, 1, 2, 0, 3),
                            (3, 2, 2, 0, 2), (4, 1, 2, 0, 2), (3, 1, 2, 1, 2)):
        q.append(_cfg("loom", "protocol", t, p, n, c, b))
    # ---- shuttle, plain DFS
    for mode in ("local", "owned", "raw"):
        for n in (1, 2):
            for c in (0, 1):
                q.append(_cfg("shuttle", mode, 2, 1, n, c))
    q.append(_cfg("shuttle", "local", 2, 1, 0, 0))
    q += [_cfg("loom", "owned", 2, 2, 1, 0), _cfg("loom", "local", 3, 1, 2, 0), _cfg("loom", "local", 3, 2, 1, 0, 3),
          _cfg("loom", "owned", 4, 1, 1, 0, 2), _cfg("loom", "raw", 2, 2, 2, 1)]
    if tier == "quick":
        return q
    th = list(q)
    th += [
        _cfg("loom", "owned", 2, 2, 2, 0), _cfg("loom", "local", 2, 2, 0, 1),
        _cfg("loom", "local", 2, 3, 2, 0), _cfg("loom", "local", 2, 3, 2, 1),
        _cfg("loom", "owned", 3, 1, 1, 0), _cfg("loom", "local", 3, 2, 2, 1, 3),
        _cfg("loom", "owned", 3, 2, 1, 0, 3), _cfg("loom", "owned", 3, 2, 1, 1, 2),
        _cfg("loom", "local", 4, 1, 2, 1, 2), _cfg("loom", "owned", 4, 1, 1, 1, 2),
        _cfg("loom", "raw", 3, 1, 0, 1, 3),
        _cfg("loom", "protocol", 4, 2, 2, 1, 2), _cfg("loom", "protocol", 3, 1, 2, 1, 3),
        _cfg("shuttle", "local", 2, 2, 1, 0), _cfg("shuttle", "local", 2, 2, 2, 0),
        _cfg("shuttle", "local", 2, 1, 0, 1),
    ]
    return th


def evaluate(case):
    exe = LOOM if case["engine"] == "loom" else SHUTTLE
    argv = [exe, case["mode"], str(case["t"]), str(case["p"]), str(case["n"]), str(case["c"])]
    if case["engine"] == "loom":
        argv.append(str(case["bound"]))
    cap = int(os.environ.get("FCV_C19_CAP", "3000"))
    rc, out, err, to = C.run(argv, cwd="/", env={"PATH": "/usr/bin:/bin", "FCV_WALL_CAP": str(cap),
                                                 "RUST_BACKTRACE": "0"}, timeout=cap + 60)
    err_s = err.decode("utf-8", "replace")
    if to:
        raise C.MachineryError("configuration %s did not finish within %d s" % (case, cap))
    if rc == 0:
        line = out.decode().strip().splitlines()[-1]
        j = json.loads(line)
        if not j.get("complete"):
            raise C.MachineryError("exploration of %s stopped at the wall cap: not exhaustive" % case)
        return {"violations": [], "states": j["executions"], "transitions": j["ops"], "evaluations": j["executions"],
                "nontrivial": [[case["engine"], case["mode"], case["t"], case["p"], case["n"], case["c"], "contended"]]
                if j["contended_executions"] else None,
                "outcome": "contended" if j["contended_executions"] else "uncontended",
                "counters": {"distinct_acquisition_orders": j["distinct_acquisition_orders"],
                             "contended_executions": j["contended_executions"]},
                "sample": j}
    # failure: classify strictly, anything else is a machinery problem
    m = re.search(r"FCV-FAIL iteration=(\d+)", err_s)
    it = int(m.group(1)) if m else None
    if "FCV over-admission" in err_s:
        kind = "over_admission"
    elif "FCV permit-leak" in err_s:
        kind = "permit_leak"
    elif "deadlock" in err_s.lower():
        kind = "deadlock"
    else:
        raise C.MachineryError("engine failure for %s (rc=%s): %s" % (case, rc, err_s[-1500:]))
    msg = [l for l in err_s.splitlines() if "FCV " in l or "deadlock" in l.lower()]
    return {"violations": [{"kind": kind, "mode": case["mode"], "engine": case["engine"],
                            "detail": "configuration %s failed at execution %s: %s" % (case, it, (msg or [""])[0][:300])}],
            "states": it or 1, "transitions": it or 1, "outcome": kind}


def finish(stats, tier):
    out = []
    if not stats["outcomes"].get("contended"):
        out.append("no configuration ever had a thread waiting for a permit")
    return out
