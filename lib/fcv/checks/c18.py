"""C18 `move` maps sources injectively and never overwrites (shape I + F, engines E2 + E1)."""
import os

from .. import common as C
from .. import dedupelab as D
from .. import shimlab as S

ID = "C18"
LEVEL = "fault_enumeration"
RULE = ("trees with two groups in nested directories and names with spaces x DIR in {outside the tree, inside the scanned "
        "tree, on another device, relative, relative with `move` started from another directory than `group`, relative with a '..' that follows a symlinked component, absolute, with trailing slash} x pre-population of the target {nothing, "
        "colliding file, colliding directory, colliding dangling symlink, colliding symlink to a file, colliding named pipe, a hard link of the source itself at the destination, the destination's parent being a symlink to the source's directory, the (empty) parent directories of every destination already present next to an unrelated file and an unrelated empty directory} (plain runs); and "
        "for the same-device and other-device targets, empty and colliding: EVERY event k of the recorded mutating-call "
        "history with a SIGKILL before k and with call k failing with EXDEV, EIO, ENOSPC (thorough: + EPERM, EACCES). "
        "Oracle: target = DIR/<absolute source path without the leading '/'>, distinct targets, parents created, bytes "
        "equal; every entry that existed under DIR keeps type, inode, bytes and link target; a colliding source stays "
        "with a warning; at every kill / failure point the complete bytes are at the source or at the target, and the "
        "source is gone only if the target is complete. distinct_nontrivial = distinct (placement, pre-population, k, fault).")
ASSUMPTIONS = ["single-threaded run for a deterministic call history (re-proved by two recordings)",
               "the other device is ext4 under /var/tmp while the tree is on tmpfs"]

TREE = [
    {"p": "r/a/one", "k": "file", "c": ["base", 2000, 1]}, {"p": "r/a/deep/er/one copy", "k": "file", "c": ["base", 2000, 1]},
    {"p": "r/b/one again", "k": "file", "c": ["base", 2000, 1]},
    {"p": "r/x", "k": "file", "c": ["base", 70000, 2]}, {"p": "r/a/x", "k": "file", "c": ["base", 70000, 2]},
    {"p": "r/unique", "k": "file", "c": ["lit", "unique"]},
    # names that are not valid UTF-8 and differ only in the invalid byte
    {"p": "r/n/caf\udce9", "k": "file", "c": ["base", 300, 3]}, {"p": "r/n/caf\udce8", "k": "file", "c": ["base", 300, 3]},
    {"p": "r/m/caf\udce9", "k": "file", "c": ["base", 300, 3]},
    # several files of one group in ONE directory: their destinations share a parent directory under DIR
    {"p": "r/keep/q0", "k": "file", "c": ["base", 900, 4]}, {"p": "r/p/q1", "k": "file", "c": ["base", 900, 4]},
    {"p": "r/p/q2", "k": "file", "c": ["base", 900, 4]}, {"p": "r/p/q3", "k": "file", "c": ["base", 900, 4]},
]
PLACEMENTS = ["outside", "inside", "other_device", "relative", "relative_other_cwd", "dotdot_through_symlink", "trailing_slash", "other_mount"]
# (file_later / symlink_later: the entry in the way is at the destination of the LAST of several files that go into one
# directory - the files before it are moved there without trouble first; file_middle: of the middle one)
PREPOP = ["file_later", "symlink_later", "file_middle", "empty", "file", "dir", "dangling_symlink", "symlink_to_file", "fifo", "empty_dirs", "hardlink_of_source", "symlinked_parent", "partial_dirs"]


def prepare(tier):
    S.prepare()


def cases(tier, seed):
    out = []
    for pl in PLACEMENTS:
        for pp in PREPOP:
            out.append({"placement": pl, "prepop": pp, "sweep": False, "tier": tier})
    for pl in ("outside", "other_device", "other_mount"):
        for pp in ("empty", "file", "dangling_symlink", "empty_dirs", "partial_dirs") + (("file_later",) if pl != "other_mount" else ()):
            out.append({"placement": pl, "prepop": pp, "sweep": True, "tier": tier})
    return out


def target_dir(sc, placement):
    if placement == "outside":
        return os.path.join(sc.root, "moved"), os.path.join(sc.root, "moved")
    if placement == "inside":
        return os.path.join(sc.tree, "r", "moved"), os.path.join(sc.tree, "r", "moved")
    if placement == "other_device":
        d = os.path.join(C.EXT4, "fcv.%d.c18" % os.getpid())
        return d, d
    if placement == "relative":
        return "../moved rel", os.path.join(sc.root, "moved rel")
    if placement == "relative_other_cwd":
        # `move` is started from another directory than `group` was: DIR is relative to where `move` runs
        return "moved rel2", os.path.join(sc.root, "other cwd", "moved rel2")
    if placement == "dotdot_through_symlink":
        # DIR = lnk/../moved3 where lnk -> <root>/elsewhere/deep: the kernel resolves it to <root>/elsewhere/moved3
        return "lnk/../moved3", os.path.join(sc.root, "elsewhere", "moved3")
    if placement == "other_mount":
        # a mount point fclones' own mount table knows: no rename attempt, straight copy + delete
        d = os.path.join(C.EXT4, "fcv.%d.c18loop" % os.getpid(), "moved")
        return d, d
    if placement == "trailing_slash":
        return os.path.join(sc.root, "moved") + "/", os.path.join(sc.root, "moved")
    raise ValueError(placement)


def evaluate(case):
    viol = []
    reached = []
    evals = 0
    loop = None
    if case["placement"] == "other_mount":
        if not C.can_loop_mount():
            return {"violations": [], "nontrivial": None, "outcome": "skipped_no_loop_mount", "evaluations": 1}
        loop = C.LoopMount(os.path.join(C.EXT4, "fcv.%d.c18loop" % os.getpid()))
        loop.__enter__()
    try:
        return _evaluate(case)
    finally:
        if loop:
            loop.__exit__()


def _evaluate(case):
    viol = []
    reached = []
    evals = 0
    with C.Scratch() as sc:
        arg, tdir = target_dir(sc, case["placement"])
        roots = [sc.tree, tdir]
        C.make_tree(sc.tree, TREE)
        report = D.make_report(sc, [], ["r"])
        rep = D.report_groups(report)
        droppable = []
        for g in rep.groups:
            ps = [C.u(p) for p in g["paths"]]
            droppable += ps[1:]
        collide = droppable[0]
        same_dir = [p for p in droppable if os.path.dirname(p).endswith("/r/p")]
        if case["prepop"] in ("file_later", "symlink_later", "file_middle"):
            if len(same_dir) < 3:
                raise C.MachineryError("tree has no directory with three droppable files: %s" % droppable)
            collide = same_dir[1] if case["prepop"] == "file_middle" else same_dir[-1]
        outside_victim = os.path.join(sc.root, "victim")

        run_cwd = None
        if case["placement"] == "relative_other_cwd":
            run_cwd = os.path.join(sc.root, "other cwd")
            os.makedirs(run_cwd, exist_ok=True)

        if case["placement"] == "dotdot_through_symlink":
            run_cwd = os.path.join(sc.root, "cwd3")
            os.makedirs(run_cwd, exist_ok=True)
            os.makedirs(os.path.join(sc.root, "elsewhere", "deep"), exist_ok=True)
            os.symlink(os.path.join(sc.root, "elsewhere", "deep"), os.path.join(run_cwd, "lnk"))

        def rebuild():
            C.rmtree(sc.tree)
            C.rmtree(tdir)
            C.rmtree(outside_victim)
            os.makedirs(sc.tree)
            C.make_tree(sc.tree, TREE)
            pp = case["prepop"]
            if pp == "empty_dirs":
                # the parent directories of every destination exist already (empty; left by an earlier run, say),
                # next to an unrelated file: nothing of that may be altered, whether the move succeeds or fails
                for q in droppable:
                    os.makedirs(os.path.dirname(tdir + q), exist_ok=True)
                os.makedirs(os.path.join(tdir, "unrelated", "empty"), exist_ok=True)
                with open(os.path.join(tdir, "keep.txt"), "wb") as f:
                    f.write(b"unrelated file under DIR")
            elif pp == "partial_dirs":
                # DIR holds only the upper part of the mirrored hierarchy (private directories, modes unlike those of
                # the source directories), the deeper parents are still to be created
                upper = os.path.dirname(os.path.dirname(tdir + droppable[0]))
                os.makedirs(upper, exist_ok=True)
                q = upper
                while q != tdir and q.startswith(tdir):
                    os.chmod(q, 0o700)
                    q = os.path.dirname(q)
                os.makedirs(os.path.join(tdir, "unrelated"), exist_ok=True)
                os.chmod(os.path.join(tdir, "unrelated"), 0o711)
            elif pp != "empty":
                tp = tdir + collide
                os.makedirs(os.path.dirname(tp), exist_ok=True)
                if pp in ("file", "file_later", "file_middle"):
                    with open(tp, "wb") as f:
                        f.write(b"pre-existing file")
                elif pp == "symlink_later":
                    with open(outside_victim, "wb") as f:
                        f.write(b"victim content")
                    os.symlink(outside_victim, tp)
                elif pp == "dir":
                    os.makedirs(tp)
                    with open(os.path.join(tp, "inner"), "wb") as f:
                        f.write(b"inner")
                elif pp == "fifo":
                    os.mkfifo(tp)          # a special file (named pipe) in the way
                elif pp == "hardlink_of_source":
                    # the entry in the way is another name of the very file that is to be moved (same inode)
                    try:
                        os.link(collide, tp)
                    except OSError:        # other device: an ordinary file instead
                        with open(tp, "wb") as f:
                            f.write(b"pre-existing file")
                elif pp == "symlinked_parent":
                    # the destination's parent directory under DIR is a symlink to the source's directory: the
                    # destination path names the source itself
                    os.rmdir(os.path.dirname(tp))
                    os.symlink(os.path.dirname(collide), os.path.dirname(tp))
                elif pp == "dangling_symlink":
                    os.symlink(outside_victim, tp)
                elif pp == "symlink_to_file":
                    with open(outside_victim, "wb") as f:
                        f.write(b"victim content")
                    os.symlink(outside_victim, tp)

        def check(res, fault, k, events):
            nonlocal viol
            feat = {"placement": case["placement"], "prepop": case["prepop"], "fault": fault or "none",
                    "call": events[k].call if (events and k is not None and k < len(events)) else "none"}
            ctx = "placement %s prepop %s fault %s at %s" % (case["placement"], case["prepop"], fault, k)
            after_t = C.inventory(tdir) if os.path.lexists(tdir) else {}
            after_s = C.inventory(sc.tree)
            # pre-existing entries untouched
            for p, b in pre_t.items():
                a = after_t.get(p)
                if b["type"] == "dir":
                    if a is None or a["type"] != "dir":
                        viol.append(dict(feat, kind="preexisting_changed", detail="%s: directory %s -> %s" % (ctx, p, a)))
                    elif p != tdir and pre_modes.get(p) is not None and os.lstat(p).st_mode != pre_modes[p]:
                        viol.append(dict(feat, kind="preexisting_changed", detail="%s: mode of directory %s was %o, now %o" % (
                            ctx, p, pre_modes[p], os.lstat(p).st_mode)))
                    continue
                if a is None or {x: a.get(x) for x in ("type", "ino", "sha", "target")} != {x: b.get(x) for x in ("type", "ino", "sha", "target")}:
                    viol.append(dict(feat, kind="preexisting_changed", detail="%s: %s was %s, now %s" % (ctx, p, b, a)))
            if os.path.lexists(outside_victim) != victim_existed or (victim_existed and C.read_file(outside_victim) != b"victim content"):
                viol.append(dict(feat, kind="wrote_through_symlink", detail="%s: %s created/changed through the colliding symlink" % (ctx, outside_victim)))
            targets = set()
            for p in droppable:
                b = pre_s[p]
                tp = tdir + p
                targets.add(tp)
                a_src = after_s.get(p) if not p.startswith(tdir) else after_t.get(p)
                a_tgt = after_t.get(tp)
                src_ok = a_src is not None and a_src.get("sha") == b["sha"]
                tgt_ok = a_tgt is not None and a_tgt.get("type") == "file" and a_tgt.get("sha") == b["sha"] and tp not in pre_t
                if not src_ok and not tgt_ok:
                    viol.append(dict(feat, kind="bytes_lost", detail="%s: %s is neither complete at the source nor at %s (%s / %s)" % (ctx, p, tp, a_src, a_tgt)))
                if fault is None:
                    collides = (tp in pre_t) or os.path.lexists(tp) and tp in pre_lex
                    in_the_way = p == collide
                    if case["prepop"] == "symlinked_parent":
                        # every source below the directory the symlink points to finds itself at its destination
                        in_the_way = tp.startswith(os.path.dirname(tdir + collide) + "/")
                    if in_the_way and case["prepop"] not in ("empty", "empty_dirs", "partial_dirs"):
                        if not src_ok:
                            viol.append(dict(feat, kind="collision_source_removed", detail="%s: %s collided with an existing entry but is gone" % (ctx, p)))
                        elif not any("already exists" in w or os.path.basename(p) in w for w in D.warnings(res["err"])):
                            viol.append(dict(feat, kind="collision_no_warning", detail="%s: stderr %s" % (ctx, res["err"][-300:])))
                    else:
                        if not tgt_ok or a_src is not None:
                            viol.append(dict(feat, kind="not_moved_to_expected_target", detail="%s: %s expected at %s; source %s target %s; stderr %s" % (
                                ctx, p, tp, a_src, a_tgt, res["err"][-200:])))
            if len(targets) != len(droppable):
                viol.append(dict(feat, kind="targets_collide", detail=ctx))
            # nothing else appeared under DIR
            if fault is None:
                extra = [p for p, a in after_t.items() if a["type"] != "dir" and p not in pre_t and p not in targets]
                if extra:
                    viol.append(dict(feat, kind="unexpected_entry_under_target", detail="%s: %s" % (ctx, extra)))

        try:
            rebuild()
            pre_t = C.inventory(tdir) if os.path.lexists(tdir) else {}
            pre_modes = {q: os.lstat(q).st_mode for q in pre_t}
            pre_lex = set(pre_t)
            pre_s = C.inventory(sc.tree)
            victim_existed = os.path.lexists(outside_victim)
            args = ["move", arg]
            env = {"RAYON_NUM_THREADS": "1"}
            rec = S.run_with_shim(sc, args, roots, "m", stdin=report, env_extra=env, cwd=run_cwd)
            evals += 1
            if rec["rc"] != 0 or "panicked" in rec["err"]:
                viol.append({"kind": "crash", "placement": case["placement"], "prepop": case["prepop"], "fault": "none",
                             "detail": rec["err"][-300:]})
            check(rec, None, None, rec["events"])
            reached.append([case["placement"], case["prepop"], "plain"])
            if case["sweep"]:
                rebuild()
                rec2 = S.run_with_shim(sc, args, roots, "m", stdin=report, env_extra=env, cwd=run_cwd)
                d = S.same_history(rec["events"], rec2["events"])
                if d:
                    raise C.MachineryError("recording not deterministic: %s" % d)
                events = rec["events"]
                # (EINVAL / ENOSYS: what a file system or kernel answers to a flag or call it does not know)
                faults = ["kill", "EXDEV", "EIO", "ENOSPC", "EINVAL"] + (["EPERM", "EACCES", "ENOSYS"] if case["tier"] == "thorough" else [])
                plan = [(k, f) for k in range(len(events)) for f in faults if not S.impossible_fault(events, k, f)]
                if case.get("only"):
                    plan = [tuple(case["only"])]
                for k, f in plan:
                    rebuild()
                    pre_t = C.inventory(tdir) if os.path.lexists(tdir) else {}
                    pre_modes = {q: os.lstat(q).st_mode for q in pre_t}
                    pre_s = C.inventory(sc.tree)
                    evals += 1
                    if f == "kill":
                        res = S.run_with_shim(sc, args, roots, "m", stdin=report, mode="kill", at=k, env_extra=env, cwd=run_cwd)
                    else:
                        res = S.run_with_shim(sc, args, roots, "m", stdin=report, mode="fail", at=k, errno=S.ERRNO[f], env_extra=env, cwd=run_cwd)
                    d = S.same_history(events, res["events"], upto=min(k, len(res["events"])))
                    if d:
                        raise C.MachineryError("prefix diverged before event %d: %s" % (k, d))
                    n0 = len(viol)
                    check(res, f, k, events)
                    for v in viol[n0:]:
                        v["replay_case"] = dict(case, only=[k, f])
                    reached.append([case["placement"], case["prepop"], k, f])
        finally:
            C.rmtree(tdir)
            C.rmtree(outside_victim)
    return {"violations": viol, "evaluations": evals, "nontrivial": reached, "outcome": "explored",
            "sample": {"placement": case["placement"], "prepop": case["prepop"], "sweep": case["sweep"],
                       "history": [repr(e).replace(sc.root, "") for e in rec["events"]][:12]}}


RULE += ' Since round 12 also: three files of one group in one directory, the entry in the way at the destination of the last / middle one (the earlier ones are moved into that directory first).'
RULE += ' Since round 11 also: DIR pre-populated with the upper part of the hierarchy in private modes (modes of pre-existing directories compared).'
